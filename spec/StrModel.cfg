SPECIFICATION Spec
CHECK_DEADLOCK FALSE
CONSTANTS
  MaxBytes = 4
  MaxChars = 3
