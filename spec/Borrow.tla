------------------------------- MODULE Borrow -------------------------------
(***************************************************************************)
(* Typestate model of client programs that use an arena (C05).             *)
(*                                                                         *)
(* A program is a sequence of statements over one arena `bump` and the     *)
(* tokens it creates (things that carry the arena lifetime: references     *)
(* returned by alloc*, Vec, String, Box, their iterators, the chunk        *)
(* iterators).  Accepts(prog) says whether the borrow / move / thread      *)
(* rules must accept the program:                                          *)
(*   - allocation borrows the arena shared for as long as the result is    *)
(*     live (NLL: until its last use; until scope end if it has a          *)
(*     destructor);                                                        *)
(*   - reset, iter_allocated_chunks, dropping or moving the arena need it  *)
(*     exclusively: no token may be live across them;                      *)
(*   - the arena may be moved to another thread when idle (Send) but never *)
(*     shared (not Sync);                                                  *)
(*   - a token that can reach back into the arena (allocate / reallocate   *)
(*     through it) must be neither Send nor Sync.                          *)
(* TLC enumerates every program up to MaxLen statements and prints         *)
(*   <<"PROBE", prog, verdict, reason>>;                                   *)
(* the harness renders each as Rust source against the real API and asks   *)
(* rustc (the executor here) for its verdict.                              *)
(***************************************************************************)
EXTENDS Integers, Sequences, FiniteSets, TLC

CONSTANTS MaxLen, MaxTok, Kinds

VARIABLE prog
END == 1000

\* ---- what the crate's *design* says about each token kind ------------------
\* destructor: borrow lasts to end of scope unless the token is dropped / moved earlier
HasDrop(k) == k \in {"Vec", "String", "Box", "VecIntoIter", "Drain", "Splice", "DrainFilter", "StrDrain", "HiddenVec", "BoxedSlice",
                     \* values reached by conversion from another arena-backed value: the arena lifetime must come along
                     "BoxSliceFromArray", "BoxArrayTryFrom", "BoxTryFromErr", "PinBox", "PinFromBox", "StringIntoBytes",
                     "StringFromUtf8", "FromUtf8Err", "VecMacro", "FormatMacro", "CollectIn", "ApiVec", "ApiBox"}
\* (plain references obtained by conversion -- Box::leak, Vec::into_bump_slice, String::into_bump_str -- are
\*  ordinary tokens: no destructor, cannot reach the arena, but carry its lifetime all the same)
\* exclusive borrow of the arena
Exclusive(k) == k \in {"ChunkIter", "ChunkItem"}
\* can call back into the arena (holds &Bump, or a pointer to something that does and uses it)
Reaches(k) == k \in {"Vec", "String", "RawIter", "ChunkIter", "Splice", "DrainFilter",
                     \* (a string Drain only ever shifts bytes inside the String it borrows exclusively: like Vec's Drain it
                     \*  never allocates, and the crate declares it Send + Sync on purpose)
                     "BumpRef", "StringIntoBytes", "StringFromUtf8", "FromUtf8Err", "VecMacro", "FormatMacro", "CollectIn",
                     "ApiVec", "ApiBox"}
\* Send / Sync as designed: plain references and owning wrappers of Send data are, anything that reaches is not
IsSend(k) == ~Reaches(k)
IsSync(k) == ~Reaches(k)
\* for these kinds no method taking a shared reference reaches the arena: Sync or not is immaterial
SyncDontCare(k) == k \in {"Splice", "DrainFilter", "StrDrain", "RawIter", "ChunkIter"}
\* kinds that are created from a hidden Vec/String (which itself borrows the arena to scope end)
Derived(k) == k \in {"Drain", "Splice", "DrainFilter", "StrDrain"}
\* shared references are Copy: dropping or sending them does not consume the token
IsCopy(k) == k \in {"BumpSlice", "BumpStr", "BumpRef", "ChunkItem"}

\* ---- statements --------------------------------------------------------------
Mk(k) == [s |-> "mk", k |-> k, t |-> 0]
St(s) == [s |-> s, k |-> "", t |-> 0]
Tk(s, t) == [s |-> s, k |-> "", t |-> t]

NTok(p) == Cardinality({i \in 1..Len(p) : p[i].s = "mk"})
\* index of the statement that creates token t (tokens are numbered in creation order)
RECURSIVE CreatedAtFrom(_, _, _, _)
CreatedAtFrom(p, t, i, n) ==
  IF i > Len(p) THEN 0
  ELSE IF p[i].s = "mk" THEN (IF n + 1 = t THEN i ELSE CreatedAtFrom(p, t, i + 1, n + 1))
  ELSE CreatedAtFrom(p, t, i + 1, n)
CreatedAt(p, t) == CreatedAtFrom(p, t, 1, 0)
KindOf(p, t) == p[CreatedAt(p, t)].k

Mentions(st, t) == st.s \in {"use", "droptok", "sendtok", "synctok"} /\ st.t = t
ConsumesK(st, t, k) == st.s \in {"droptok", "sendtok"} /\ st.t = t /\ ~IsCopy(k)
TouchesArena(st) == st.s \in {"mk", "reset", "itermut", "allocmore", "droparena", "sendarena", "sharearena"}
NeedsExclusive(st) == st.s \in {"reset", "itermut", "droparena", "sendarena"} \/ (st.s = "mk" /\ Exclusive(st.k))
MovesArena(st) == st.s \in {"droparena", "sendarena"}

\* statement index at which token t is consumed (0 = never)
ConsumedAt(p, t) == LET S == {i \in 1..Len(p) : ConsumesK(p[i], t, KindOf(p, t))} IN IF S = {} THEN 0 ELSE CHOOSE i \in S : \A j \in S : i <= j
LastMention(p, t) == LET S == {i \in 1..Len(p) : Mentions(p[i], t)} IN IF S = {} THEN CreatedAt(p, t) ELSE CHOOSE i \in S : \A j \in S : i >= j
\* the arena borrow held on behalf of token t ends here
LiveEnd(p, t) ==
  LET k == KindOf(p, t) IN
  \* a derived token's hidden Vec/String lives on when only the token is moved to a thread
  IF ConsumedAt(p, t) # 0 /\ ~(Derived(k) /\ p[ConsumedAt(p, t)].s = "sendtok") THEN ConsumedAt(p, t)
  ELSE IF HasDrop(k) \/ Derived(k) THEN END
  ELSE LastMention(p, t)

\* a token is live across statement i: created before it and still needed after it
LiveAcross(p, t, i) == CreatedAt(p, t) < i /\ LiveEnd(p, t) > i

ArenaMovedBefore(p, i) == \E j \in 1..(i - 1) : MovesArena(p[j])

\* first reason for rejection, or "ok"
Reason(p) ==
  LET n == Len(p)
      toks == 1..NTok(p)
      UseAfterMoveTok == \E t \in toks, i \in 1..n : Mentions(p[i], t) /\ ConsumedAt(p, t) # 0 /\ i > ConsumedAt(p, t)
      UseAfterMoveArena == \E i \in 1..n : TouchesArena(p[i]) /\ ArenaMovedBefore(p, i)
      ExclusiveConflict == \E i \in 1..n : NeedsExclusive(p[i]) /\ \E t \in toks : LiveAcross(p, t, i)
      SharedVsExclusiveTok == \E i \in 1..n : TouchesArena(p[i]) /\
                                 \E t \in toks : Exclusive(KindOf(p, t)) /\ LiveAcross(p, t, i)
      Share == \E i \in 1..n : p[i].s = "sharearena"
      SendBad == \E i \in 1..n : p[i].s = "sendtok" /\ ~IsSend(KindOf(p, p[i].t))
      SyncBad == \E i \in 1..n : p[i].s = "synctok" /\ ~IsSync(KindOf(p, p[i].t))
      DontCare == \E i \in 1..n : p[i].s = "synctok" /\ SyncDontCare(KindOf(p, p[i].t))
  IN IF DontCare THEN "dontcare"
     ELSE IF UseAfterMoveTok \/ UseAfterMoveArena THEN "moved"
     ELSE IF ExclusiveConflict \/ SharedVsExclusiveTok THEN "borrow"
     ELSE IF Share \/ SendBad \/ SyncBad THEN "thread"
     ELSE "ok"

Accepts(p) == Reason(p) = "ok"

\* ---- enumeration ---------------------------------------------------------------
WellFormedNext(p, st) ==
  /\ (st.s = "mk" => NTok(p) < MaxTok)
  /\ (st.s \in {"use", "droptok", "sendtok", "synctok"} => st.t >= 1 /\ st.t <= NTok(p))

Stmts(p) ==
  {Mk(k) : k \in Kinds}
  \cup {St(s) : s \in {"reset", "itermut", "allocmore", "droparena", "sendarena", "sharearena"}}
  \cup {Tk(s, t) : s \in {"use", "droptok", "sendtok", "synctok"}, t \in 1..MaxTok}

Init == prog = <<>>
Next == /\ Len(prog) < MaxLen
        /\ \E st \in Stmts(prog) : WellFormedNext(prog, st) /\ prog' = Append(prog, st)
Spec == Init /\ [][Next]_prog

\* every program is printed once, with the model's verdict
Emit == PrintT(<<"PROBE", prog, Reason(prog)>>)
EmitInv == Emit

\* ---- sanity of the model itself (checked by TLC on every program) ------------
\* ordinary patterns are accepted
OrdinaryAccepted ==
  /\ (\A i \in 1..Len(prog) : prog[i].s \in {"mk", "use", "allocmore"} /\ (prog[i].s = "mk" => ~Exclusive(prog[i].k))) => Accepts(prog)
\* the misuse classes are rejected
MisuseRejected ==
  /\ (\E i \in 1..Len(prog) : prog[i].s = "sharearena") => ~Accepts(prog)
  /\ (\E i, j \in 1..Len(prog) : i < j /\ prog[i].s = "reset" /\ prog[j].s = "use"
         /\ CreatedAt(prog, prog[j].t) < i) => ~Accepts(prog)
  /\ (\E i, j \in 1..Len(prog) : i < j /\ prog[i].s = "droparena" /\ prog[j].s = "use"
         /\ CreatedAt(prog, prog[j].t) < i) => ~Accepts(prog)
=============================================================================
