SPECIFICATION Spec
VIEW View
CHECK_DEADLOCK FALSE
CONSTANTS
  CHUNK_ALIGN = 4
  FOOTER = 4
  MALLOC_OVERHEAD = 4
  FIRST_GOAL = 32
  PAGE = 64
  SentAddrs = {16}
  SLOT = 1024
  MinAligns = {1, 2, 4}
  Sizes = {0, 1, 3, 8, 25, 60}
  Aligns = {1, 2, 4, 8}
  Caps = {1, 25}
  Limits = {}
  MaxSlots = 2
  MaxLive = 2
  MaxRefuse = 1
  GrowIncs = {}
  ShrinkDecs = {}
  ClosSizes = {}
  TrackLive = TRUE
  EnableTryFill = FALSE
INVARIANTS
  NoObligationFailed
  InBounds
  Disjoint
  AlignedBlocks
  FingerInv
  LiveAboveFinger
  HeapIsChunks
  ChunksDistinct
  Accounting
  SentinelUntouched
  CapacityWithinChunk
