----------------------------- MODULE CollTrace -----------------------------
(***************************************************************************)
(* Trace validation of Vec / Box executions against the reference          *)
(* semantics Coll!Sem.  The same trace file contains every program twice:  *)
(* executed on bumpalo's types (im = "bump") and on std's (im = "std");    *)
(* both are validated by the same formulas, so "behaves exactly like std"  *)
(* is established as  bumpalo = spec = std  on identical programs, and an  *)
(* error in the transcription of std's semantics shows up as a failure on  *)
(* the std half (reported as SPECFAIL, a defect of this machinery).        *)
(*                                                                         *)
(* State: contents of every vector and box slot (pairs <<id,val>>), the    *)
(* ids the caller holds, and the set of ids destroyed so far.              *)
(***************************************************************************)
EXTENDS Coll, Json, IOUtils

Rec == ndJsonDeserialize(IOEnv.TRACE)

VARIABLES l, V, B, held, dropped, zlen, zheld, cv
cvars == <<l, V, B, held, dropped, zlen, zheld, cv>>

SeqToSet(s) == {s[i] : i \in 1..Len(s)}
AllIds(VV) == UNION {IdsOf(VV[i]) : i \in 1..Len(VV)}
CountIds(VV) == LET S[i \in 0..Len(VV)] == IF i = 0 THEN 0
                                           ELSE S[i - 1] + (IF VV[i] = NoVec THEN 0 ELSE Len(VV[i]))
                IN S[Len(VV)]
Pad(VV, n) == IF Len(VV) >= n THEN VV ELSE VV \o [i \in 1..(n - Len(VV)) |-> NoVec]

\* expected contents (with <<-1,val>> for new elements) against logged contents
MatchSeq(exp, got, created) ==
  /\ (exp = NoVec) = (got = NoVec)
  /\ exp # NoVec =>
       /\ Len(exp) = Len(got)
       /\ \A i \in 1..Len(exp) :
            /\ exp[i][2] = got[i][2]
            /\ IF exp[i][1] = -1 THEN got[i][1] \in created ELSE exp[i][1] = got[i][1]
MatchAll(EV, GV, created) ==
  LET n == IF Len(EV) > Len(GV) THEN Len(EV) ELSE Len(GV)
      E == Pad(EV, n)
      G == Pad(GV, n)
  IN \A i \in 1..n : MatchSeq(E[i], G[i], created)
MatchRet(exp, got, created) ==
  /\ Len(exp) = Len(got)
  /\ \A i \in 1..Len(exp) : exp[i][2] = got[i][2] /\ (exp[i][1] = -1 \/ exp[i][1] = got[i][1])

Chk(prop, name, cond, wit) ==
  IF cond THEN TRUE
  ELSE PrintT(<<IF Rec[l].im = "std" THEN "SPECFAIL" ELSE "PROPFAIL", prop, name, l,
                <<Rec[l].p, Rec[l].i, Rec[l].op, Rec[l].im>>, wit>>)

GrowOps == {"push", "insert", "extend", "extend_from_slice", "resize", "append", "splice"}
InfoRetOps == {"into_bump_slice", "into_boxed_slice", "box_leak", "box_raw_roundtrip", "box_from_iter", "box_read", "box_downcast", "box_array"}

\* ---- zero-sized elements: the same laws, counted ---------------------------------
ZStep ==
  LET e == Rec[l]
      first == e.i = 0
      len0 == IF first THEN -1 ELSE zlen
      held0 == IF first THEN 0 ELSE zheld
      x == ZSem(e, len0)
      panicked == e.res = "panic"
      lenA == IF e.alive = 1 THEN e.len ELSE 0
  IN /\ Chk("C13", "PanicsExactlyWhenStdDoes", panicked = x.panics, <<e.res, x.panics, e.a, e.rg, len0>>)
     /\ Chk("C13", "ContentsAsSpecified", (~panicked /\ ~x.panics /\ len0 >= 0 /\ ~x.gone) => e.alive = 1 /\ e.len = x.len, <<x.len, e.len>>)
     /\ Chk("C13", "ReturnsAsSpecified", (~panicked /\ ~x.panics /\ e.op # "zdrop") => e.zr = x.ret, <<x.ret, e.zr>>)
     /\ Chk("C13", "CapacityNeverBelowLength", e.alive = 1 => e.cap >= e.len, <<e.len, e.cap>>)
     \* Box<[T]> -> Box<[T; 3]> succeeds exactly for length 3 (also when T is zero-sized); otherwise the
     \* slice comes back whole (retn = -length)
     /\ Chk("C17", "BoxedSliceToArrayChecksTheLength",
            (e.op = "zbox_try_array" /\ ~panicked) => e.retn = (IF e.a = 3 THEN 1 ELSE 0 - e.a), <<e.a, e.retn>>)
     \* every element created is in the vector, with the caller, or destroyed -- exactly once
     /\ Chk("C15", "EveryElementAccountedForExactlyOnce",
            ~panicked => (IF len0 < 0 THEN 0 ELSE len0) + held0 + e.zc = lenA + (held0 + e.zr) + e.zd,
            <<len0, held0, e.zc, lenA, e.zr, e.zd>>)
     /\ Chk("C16", "NoDoubleDrop", (IF len0 < 0 THEN 0 ELSE len0) + held0 + e.zc >= lenA + (held0 + e.zr) + e.zd,
            <<len0, held0, e.zc, lenA, e.zr, e.zd>>)
     /\ zlen' = IF e.alive = 1 THEN e.len ELSE -1
     /\ zheld' = held0 + e.zr
     /\ UNCHANGED <<V, B, held, dropped, cv>>

\* ---- Copy elements: values only ------------------------------------------------------
CStep ==
  LET e == Rec[l]
      first == e.i = 0
      s == IF first THEN <<>> ELSE cv
      got == ValsOf(e.after)
      exp == CASE e.op = "cnew" -> <<>>
               [] e.op = "cpush" -> s \o e.vals
               [] e.op \in {"extend_from_slice_copy", "extend_from_slices_copy"} -> s \o e.vals
               [] e.op \in {"vec_macro", "collect_in"} -> e.vals
               [] OTHER -> s
  IN /\ Chk("C13", "ContentsAsSpecified", e.res = "ok" /\ (e.op = "io_write" \/ (e.alive = 1 /\ got = exp)), <<exp, got>>)
     /\ Chk("C13", "WriteAppendsAllBytes",
            e.op = "io_write" => e.retn = Len(e.vals) /\ ValsOf(e.ret) = <<7>> \o e.vals \o <<1, 2>>, <<e.retn, e.ret>>)
     /\ Chk("C13", "CapacityNeverBelowLength", e.alive = 1 => e.cap >= e.len, <<e.len, e.cap>>)
     /\ cv' = IF e.alive = 1 THEN got ELSE s
     /\ UNCHANGED <<V, B, held, dropped, zlen, zheld>>

TStep ==
  /\ LET e == Rec[l]
         first == e.i = 0
         hasPrev == ~first /\ l > 1
         V0 == IF first THEN <<>> ELSE V
         B0 == IF first THEN <<>> ELSE B
         held0 == IF first THEN {} ELSE held
         dropped0 == IF first THEN {} ELSE dropped
         x == Sem(e, V0, B0)
         created == {e.created[k][1] : k \in 1..Len(e.created)}
         drops == SeqToSet(e.drops)
         leaked == SeqToSet(e.leaked)
         heldA == SeqToSet(e.held)
         before == AllIds(V0) \cup AllIds(B0) \cup held0
         inCont == AllIds(e.all) \cup AllIds(e.bx)
         after == inCont \cup heldA
         programmed == e.pp = 1
         panicked == e.res = "panic"
         okPath == ~programmed
     IN
     \* ---------------------------------------------------------- C13 ----
     /\ Chk("C13", "PanicsExactlyWhenStdDoes", okPath => (panicked = x.panics), <<e.res, x.panics, e.a, e.rg>>)
     /\ Chk("C13", "FallibleReserveReportsError", okPath => ((e.res = "err") = x.err), <<e.res, x.err>>)
     /\ Chk("C13", "ContentsAsSpecified", (okPath /\ panicked = x.panics) => MatchAll(x.V, e.all, created),
            <<x.V, e.all>>)
     /\ Chk("C13", "ReturnsAsSpecified",
            (okPath /\ ~panicked /\ ~x.panics) => MatchRet(x.ret, e.ret, created), <<x.ret, e.ret>>)
     /\ Chk("C13", "CallbackArgumentsAsStd",
            (e.op = "dedup_by" /\ okPath /\ ~panicked /\ e.v >= 0 /\ e.v + 1 <= Len(V0) /\ V0[e.v + 1] # NoVec) =>
               e.cbargs = DedupArgs(V0[e.v + 1], <<>>, <<>>),
            <<e.cbargs, DedupArgs(IF e.v + 1 <= Len(V0) THEN V0[e.v + 1] ELSE <<>>, <<>>, <<>>)>>)
     /\ Chk("C13", "CapacityNeverBelowLength", e.len >= 0 => e.cap >= e.len, <<e.len, e.cap>>)
     /\ Chk("C13", "ReservedCapacityAvailable",
            (e.op \in {"reserve", "reserve_exact", "try_reserve", "try_reserve_exact"} /\ e.res = "ok" /\ e.len >= 0 /\ e.a >= 0)
               => e.cap >= e.len + e.a, <<e.len, e.a, e.cap>>)
     /\ Chk("C13", "RequestedCapacityAvailable", (e.op = "new" /\ e.a >= 0) => e.cap >= e.a, <<e.a, e.cap>>)
     /\ Chk("C13", "NeighboursUndisturbed", e.canary_ok = 1, e.op)
     \* Deref / AsRef / Borrow / Index / IntoIterator for &Vec, Hash, Debug, PartialEq / PartialOrd / Ord against another
     \* vector and against slices, and the mutable views: all agree with the same on the vector's slice (bit i of
     \* retn = i-th comparison of the driver failed)
     /\ Chk("C13", "ViewsAgreeWithTheSlice", (e.op = "vec_views" /\ ~panicked) => e.retn = 0, <<e.v, e.retn>>)
     \* ---------------------------------------------------------- C17 ----
     /\ Chk("C17", "BoxContentsAsSpecified", (okPath /\ panicked = x.panics) => MatchAll(x.B, e.bx, created),
            <<x.B, e.bx>>)
     /\ Chk("C17", "BoxDropReleasesNoMemory",
            (e.op \in {"box_drop", "box_into_inner", "box_leak", "box_raw_roundtrip"} /\ e.im = "bump" /\ hasPrev)
               => e.gafree = 0 /\ e.ab = Rec[l - 1].ab, <<e.gafree, e.ab>>)
     /\ Chk("C17", "BoxForwardsToValue", (e.op = "box_read" /\ e.retn >= 0) => e.retn = 1, e.retn)
     \* comparisons, hashing, formatting, Iterator / DoubleEndedIterator / ExactSizeIterator, Hasher, Future,
     \* Deref / AsRef / Borrow / Pin: every method gives what the value itself gives (bit k set = method k differs)
     /\ Chk("C17", "EveryTraitMethodForwardsToTheValue", (e.op = "box_forward" /\ ~panicked) => e.retn = 0, <<e.a, e.retn>>)
     /\ Chk("C17", "DowncastPreservesTheValue",
            (e.op = "box_downcast" /\ ~panicked /\ e.a >= 0 /\ e.a + 1 <= Len(B0) /\ B0[e.a + 1] # NoVec) => e.retn = 1,
            <<e.flag, e.b, e.retn>>)
     \* ---------------------------------------------------------- C15 ----
     /\ Chk("C15", "NoDoubleDrop", Cardinality(drops) = Len(e.drops) /\ drops \cap dropped0 = {},
            <<e.drops, drops \cap dropped0>>)
     /\ Chk("C15", "DropsExactlyWhatTheCallLetsGo",
            (okPath /\ ~panicked /\ ~x.panics) => (drops \cap before) = (IF e.op = "drop_held" THEN held0 ELSE x.drops),
            <<drops \cap before, x.drops>>)
     /\ Chk("C15", "EveryElementAccountedForExactlyOnce",
            (okPath /\ ~panicked /\ ~x.panics) =>
               /\ before \cup created = after \cup drops \cup (x.leaks \cup leaked)
               /\ after \cap drops = {} /\ inCont \cap heldA = {}
               /\ CountIds(e.all) + CountIds(e.bx) = Cardinality(inCont)
               /\ leaked \subseteq x.leaks,
            <<before, created, after, drops, x.leaks, leaked>>)
     /\ Chk("C15", "ReturnedElementsBelongToCaller",
            (okPath /\ ~panicked /\ e.op \notin InfoRetOps) => {e.ret[k][1] : k \in 1..Len(e.ret)} \subseteq heldA,
            <<e.ret, e.held>>)
     \* ---------------------------------------------------------- C16 ----
     /\ Chk("C16", "NoDroppedOrMovedOutValueReachable",
            /\ inCont \cap (dropped0 \cup drops) = {}
            /\ inCont \cap heldA = {}
            /\ CountIds(e.all) + CountIds(e.bx) = Cardinality(inCont),
            <<inCont \cap (dropped0 \cup drops), inCont \cap heldA, e.all>>)
     /\ Chk("C16", "NothingFromNowhere", after \subseteq before \cup created, after \ (before \cup created))
     /\ Chk("C16", "HeldValuesNotDropped", heldA \cap (dropped0 \cup drops) = {}, heldA \cap (dropped0 \cup drops))
     \* ---------------------------------------------------------- C18 ----
     /\ Chk("C18", "NoMoveWithinReservedCapacity",
            (e.moved = 1 /\ e.op \in GrowOps /\ e.cap0 >= 0 /\ ~panicked) => e.len > e.cap0, <<e.len, e.cap0>>)
     /\ Chk("C18", "ReserveDoesNotMoveWhenRoomy",
            (e.moved = 1 /\ e.op \in {"reserve", "reserve_exact", "try_reserve", "try_reserve_exact"} /\ e.cap0 >= 0)
               => e.len + e.a > e.cap0, <<e.len, e.a, e.cap0>>)
     /\ Chk("C18", "PushGrowthAtLeastDoubles",
            (e.moved = 1 /\ e.op = "push" /\ e.cap0 > 0) => e.cap >= 2 * e.cap0, <<e.cap0, e.cap>>)
     \* amortised growth: whenever a growing call has to move the buffer it at least doubles the capacity
     \* (new capacity = max(2 * old capacity, what is needed)); reserve_exact / shrink_to_fit are exempt
     /\ Chk("C18", "AmortisedGrowthAtLeastDoubles",
            (e.moved = 1 /\ e.cap0 > 0 /\ ~panicked /\ e.op \in (GrowOps \cup {"reserve", "try_reserve"})) => e.cap >= 2 * e.cap0,
            <<e.op, e.cap0, e.cap>>)
     \* ---------------------------------------------------------------------
     /\ V' = e.all /\ B' = e.bx /\ held' = heldA /\ dropped' = dropped0 \cup drops
     /\ UNCHANGED <<zlen, zheld, cv>>

Step ==
  /\ l <= Len(Rec)
  /\ CASE Rec[l].ty = "Z" -> ZStep
       [] Rec[l].ty = "C" -> CStep
       [] OTHER -> TStep
  /\ l' = l + 1

Init == l = 1 /\ V = <<>> /\ B = <<>> /\ held = {} /\ dropped = {} /\ zlen = -1 /\ zheld = 0 /\ cv = <<>>
Spec == Init /\ [][Step]_cvars

Accepted ==
  IF TLCGet("stats").diameter - 1 = Len(Rec) THEN PrintT(<<"ACCEPTED", Len(Rec)>>)
  ELSE PrintT(<<"REJECTED at", TLCGet("stats").diameter, Len(Rec)>>) /\ FALSE
=============================================================================
