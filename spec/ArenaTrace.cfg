SPECIFICATION Spec
POSTCONDITION Accepted
CHECK_DEADLOCK FALSE
CONSTANTS
  CHUNK_ALIGN = 16
  FOOTER = 48
  MALLOC_OVERHEAD = 16
  FIRST_GOAL = 512
  PAGE = 4096
