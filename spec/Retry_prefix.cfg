SPECIFICATION RSpec
CONSTANTS
  CHUNK_ALIGN = 4
  FOOTER = 4
  MALLOC_OVERHEAD = 4
  FIRST_GOAL = 32
  PAGE = 64
  MinAligns = {1, 4}
  Sizes = {0, 1, 24, 25, 60, 200}
  Aligns = {1, 8, 64}
  Limits = {0, 1, 8, 23, 24, 30, 100}
  ChunkWos = {0, 24, 56, 120}
  OfferZeroOnce = FALSE
PROPERTIES
  Terminates
  CandidatesShrink
INVARIANTS
  GrantFits
