-------------------------------- MODULE Coll --------------------------------
(***************************************************************************)
(* Reference semantics of Vec / Box (what std documents, and therefore     *)
(* what bumpalo's forks must do): every public operation as one atomic     *)
(* step on sequences of elements.  An element is a pair <<id, val>>: `val` *)
(* is what the program sees, `id` is the identity that the ownership       *)
(* discipline talks about (who must drop which element, exactly once).     *)
(* Elements that an operation creates are written <<-1, val>>.             *)
(*                                                                         *)
(* Sem(e, V, B) gives, for the call described by event-shaped record e on  *)
(* vectors V and boxes B:                                                  *)
(*   panics  - does the call panic (index / range / capacity rules)        *)
(*   V, B    - contents afterwards                                         *)
(*   ret     - elements handed to the caller, in order                     *)
(*   drops   - ids of pre-existing elements the call must destroy          *)
(*   leaks   - ids of pre-existing elements legitimately never destroyed   *)
(* The same definitions validate traces of bumpalo's types *and* of std's  *)
(* (CollTrace.tla), so the transcription itself is checked against std.    *)
(***************************************************************************)
EXTENDS Integers, Sequences, FiniteSets, TLC

NoVec == <<<<-1, -1>>>>          \* marker: slot holds no vector / box
BIG == 1000000000                \* stands for usize::MAX in arguments (-1 in the log)
U(x) == IF x < 0 THEN BIG ELSE x

IdsOf(s) == IF s = NoVec THEN {} ELSE {s[i][1] : i \in 1..Len(s)}
ValsOf(s) == [i \in 1..Len(s) |-> s[i][2]]
New(val) == <<-1, val>>
NewSeq(vals) == [i \in 1..Len(vals) |-> New(vals[i])]
Sub(s, lo, hi) == IF lo > hi THEN <<>> ELSE SubSeq(s, lo, hi)   \* 1-based inclusive
Take(s, n) == Sub(s, 1, IF n < Len(s) THEN n ELSE Len(s))
DropFront(s, n) == Sub(s, n + 1, Len(s))
TakeBack(s, n) == Sub(s, Len(s) - (IF n < Len(s) THEN n ELSE Len(s)) + 1, Len(s))
Rev(s) == [i \in 1..Len(s) |-> s[Len(s) + 1 - i]]
Filter(s, P(_)) == SelectSeq(s, P)

\* range bounds: kind 0 unbounded, 1 included, 2 excluded (RangeBounds<usize>)
RStart(rg) == CASE rg[1] = 0 -> 0 [] rg[1] = 1 -> U(rg[2]) [] OTHER -> U(rg[2]) + 1
REnd(rg, len) == CASE rg[3] = 0 -> len [] rg[3] = 1 -> U(rg[4]) + 1 [] OTHER -> U(rg[4])
\* n + 1 on usize::MAX overflows: std panics
ROverflow(rg) == (rg[1] = 2 /\ rg[2] < 0) \/ (rg[3] = 1 /\ rg[4] < 0)
RangePanics(rg, len) == ROverflow(rg) \/ RStart(rg) > REnd(rg, len) \/ REnd(rg, len) > len

RECURSIVE DedupBy(_, _, _)
DedupBy(s, K(_), acc) ==
  IF s = <<>> THEN acc
  ELSE IF acc # <<>> /\ K(acc[Len(acc)]) = K(s[1]) THEN DedupBy(Tail(s), K, acc)
  ELSE DedupBy(Tail(s), K, Append(acc, s[1]))

\* dedup_by with the order-sensitive predicate later.val <= kept.val, and the argument pairs it is called with
RECURSIVE DedupRel(_, _)
DedupRel(s, acc) ==
  IF s = <<>> THEN acc
  ELSE IF acc # <<>> /\ s[1][2] <= acc[Len(acc)][2] THEN DedupRel(Tail(s), acc)
  ELSE DedupRel(Tail(s), Append(acc, s[1]))
RECURSIVE DedupArgs(_, _, _)
DedupArgs(s, acc, out) ==
  IF s = <<>> THEN out
  ELSE IF acc = <<>> THEN DedupArgs(Tail(s), <<s[1]>>, out)
  ELSE LET pair == <<s[1][1], acc[Len(acc)][1]>> IN
       IF s[1][2] <= acc[Len(acc)][2] THEN DedupArgs(Tail(s), acc, Append(out, pair))
       ELSE DedupArgs(Tail(s), Append(acc, s[1]), Append(out, pair))

Res(V, B) == [panics |-> FALSE, V |-> V, B |-> B, ret |-> <<>>, drops |-> {}, leaks |-> {}, err |-> FALSE]
Panic(V, B) == [Res(V, B) EXCEPT !.panics = TRUE]

\* floor division / modulus on the (non-negative) values used by the drivers
Key(x, m) == x[2] \div m

Sem(e, V, B) ==
  LET v == e.v
      has == v >= 0 /\ v + 1 <= Len(V) /\ V[v + 1] # NoVec
      s == IF has THEN V[v + 1] ELSE <<>>
      len == Len(s)
      SetV(x) == [V EXCEPT ![v + 1] = x]
      w == e.w
      hasw == w >= 0 /\ w + 1 <= Len(V) /\ V[w + 1] # NoVec
      sw == IF hasw THEN V[w + 1] ELSE <<>>
      \* vectors are addressed by slot; slots grow on demand
      Grow(VV, k) == IF k + 1 <= Len(VV) THEN VV ELSE VV \o [i \in 1..(k + 1 - Len(VV)) |-> NoVec]
      val1 == IF e.vals # <<>> THEN e.vals[1] ELSE 0
      b == e.a
      hasb == b >= 0 /\ b + 1 <= Len(B) /\ B[b + 1] # NoVec
      sb == IF hasb THEN B[b + 1] ELSE <<>>
      SetB(x) == [Grow(B, b) EXCEPT ![b + 1] = x]
  IN
  CASE e.op = "new" ->
         [Res([Grow(V, v) EXCEPT ![v + 1] = <<>>], B) EXCEPT !.drops = IF has THEN IdsOf(s) ELSE {}]
    [] e.op = "from_iter" ->
         [Res([Grow(V, v) EXCEPT ![v + 1] = NewSeq(e.vals)], B) EXCEPT !.drops = IF has THEN IdsOf(s) ELSE {}]
    [] ~has /\ e.op \in {"push", "pop", "insert", "remove", "swap_remove", "truncate", "clear", "resize",
                         "extend_from_slice", "extend", "append", "split_off", "drain", "splice", "retain",
                         "drain_filter", "dedup", "dedup_by_key", "dedup_by", "reserve", "reserve_exact", "try_reserve",
                         "try_reserve_exact", "shrink_to_fit", "clone", "into_iter", "into_iter_via", "into_bump_slice",
                         "into_boxed_slice", "index", "drop_vec"} ->
         \* the driver does nothing when the slot is empty (except that it drops what it built for the call)
         Res(V, B)
    [] e.op = "push" -> Res(SetV(Append(s, New(val1))), B)
    [] e.op = "pop" ->
         IF len = 0 THEN Res(V, B)
         ELSE [Res(SetV(Sub(s, 1, len - 1)), B) EXCEPT !.ret = <<s[len]>>]
    [] e.op = "insert" ->
         IF U(e.a) > len THEN Panic(V, B)
         ELSE Res(SetV(Sub(s, 1, e.a) \o <<New(val1)>> \o Sub(s, e.a + 1, len)), B)
    [] e.op = "remove" ->
         IF U(e.a) >= len THEN Panic(V, B)
         ELSE [Res(SetV(Sub(s, 1, e.a) \o Sub(s, e.a + 2, len)), B) EXCEPT !.ret = <<s[e.a + 1]>>]
    [] e.op = "swap_remove" ->
         IF U(e.a) >= len THEN Panic(V, B)
         ELSE [Res(SetV(IF e.a + 1 = len THEN Sub(s, 1, len - 1)
                        ELSE Sub(s, 1, e.a) \o <<s[len]>> \o Sub(s, e.a + 2, len - 1)), B)
                 EXCEPT !.ret = <<s[e.a + 1]>>]
    [] e.op = "truncate" ->
         IF U(e.a) >= len THEN Res(V, B)
         ELSE [Res(SetV(Sub(s, 1, e.a)), B) EXCEPT !.drops = IdsOf(Sub(s, e.a + 1, len))]
    [] e.op = "clear" -> [Res(SetV(<<>>), B) EXCEPT !.drops = IdsOf(s)]
    [] e.op = "resize" ->
         IF e.a < 0 THEN Panic(V, B)                                             \* capacity overflow
         ELSE IF e.a > len THEN Res(SetV(s \o [i \in 1..(e.a - len) |-> New(val1)]), B)
         ELSE [Res(SetV(Sub(s, 1, e.a)), B) EXCEPT !.drops = IdsOf(Sub(s, e.a + 1, len))]
    [] e.op \in {"extend_from_slice", "extend"} -> Res(SetV(s \o NewSeq(e.vals)), B)
    [] e.op = "append" ->
         IF ~hasw THEN Res(V, B)
         ELSE Res([SetV(s \o sw) EXCEPT ![w + 1] = <<>>], B)
    [] e.op = "split_off" ->
         IF U(e.a) > len THEN [Panic(V, B) EXCEPT !.V = [Grow(V, w) EXCEPT ![w + 1] = NoVec],
                                                  !.drops = IF hasw THEN IdsOf(sw) ELSE {}]
         ELSE [Res([Grow(SetV(Sub(s, 1, e.a)), w) EXCEPT ![w + 1] = Sub(s, e.a + 1, len)], B)
                 EXCEPT !.drops = IF hasw THEN IdsOf(sw) ELSE {}]
    [] e.op = "drain" ->
         IF RangePanics(e.rg, len) THEN Panic(V, B)
         ELSE LET st == RStart(e.rg)
                  en == REnd(e.rg, len)
                  removed == Sub(s, st + 1, en)
                  front == Take(removed, e.a)
                  rest == DropFront(removed, Len(front))
                  back == Rev(TakeBack(rest, e.b))
                  mid == Sub(rest, 1, Len(rest) - Len(back))
              IN IF e.flag = 1
                 THEN \* the Drain is leaked: the vector keeps only the part before the range
                      [Res(SetV(Sub(s, 1, st)), B) EXCEPT !.ret = front \o back,
                                                         !.leaks = IdsOf(mid) \cup IdsOf(Sub(s, en + 1, len))]
                 ELSE [Res(SetV(Sub(s, 1, st) \o Sub(s, en + 1, len)), B)
                         EXCEPT !.ret = front \o back, !.drops = IdsOf(mid)]
    [] e.op = "splice" ->
         IF RangePanics(e.rg, len) THEN Panic(V, B)
         ELSE LET st == RStart(e.rg)
                  en == REnd(e.rg, len)
                  removed == Sub(s, st + 1, en)
                  taken == Take(removed, e.a)
              IN [Res(SetV(Sub(s, 1, st) \o NewSeq(e.vals) \o Sub(s, en + 1, len)), B)
                    EXCEPT !.ret = taken, !.drops = IdsOf(DropFront(removed, Len(taken)))]
    [] e.op = "retain" ->
         LET keep == Filter(s, LAMBDA x: x[2] % e.a # 0) IN
         [Res(SetV(keep), B) EXCEPT !.drops = IdsOf(s) \ IdsOf(keep)]
    [] e.op = "drain_filter" ->
         LET keep == Filter(s, LAMBDA x: x[2] % e.a # 0)
             out  == Filter(s, LAMBDA x: x[2] % e.a = 0)
             taken == IF e.b < 0 THEN out ELSE Take(out, e.b)
         IN [Res(SetV(keep), B) EXCEPT !.ret = taken, !.drops = IdsOf(out) \ IdsOf(taken)]
    [] e.op = "dedup" ->
         LET d == DedupBy(s, LAMBDA x: x[2], <<>>) IN
         [Res(SetV(d), B) EXCEPT !.drops = IdsOf(s) \ IdsOf(d)]
    [] e.op = "dedup_by_key" ->
         LET d == DedupBy(s, LAMBDA x: x[2] \div e.a, <<>>) IN
         [Res(SetV(d), B) EXCEPT !.drops = IdsOf(s) \ IdsOf(d)]
    [] e.op = "dedup_by" ->
         \* same_bucket(a, b): a is the later element, b the one kept before it; true removes a.
         \* The driver's predicate is a.val <= b.val
         LET d == DedupRel(s, <<>>) IN
         [Res(SetV(d), B) EXCEPT !.drops = IdsOf(s) \ IdsOf(d)]
    [] e.op \in {"reserve", "reserve_exact"} ->
         IF e.a < 0 \/ e.a >= 2147483647 THEN Panic(V, B) ELSE Res(V, B)        \* capacity overflow
    [] e.op \in {"try_reserve", "try_reserve_exact"} ->
         IF e.a < 0 \/ e.a >= 2147483647 THEN [Res(V, B) EXCEPT !.err = TRUE] ELSE Res(V, B)
    [] e.op = "shrink_to_fit" -> Res(V, B)
    [] e.op = "clone" ->
         [Res([Grow(V, w) EXCEPT ![w + 1] = NewSeq(ValsOf(s))], B) EXCEPT !.drops = IF hasw THEN IdsOf(sw) ELSE {}]
    [] e.op = "into_iter" ->
         LET front == Take(s, e.a)
             rest == DropFront(s, Len(front))
             back == Rev(TakeBack(rest, e.b))
             mid == Sub(rest, 1, Len(rest) - Len(back))
         IN [Res(SetV(NoVec), B) EXCEPT !.ret = front \o back, !.drops = IdsOf(mid)]
    [] e.op = "into_iter_via" ->
         \* the owning iterator consumed through an adaptor (e.a: which, e.b: its argument n); whatever the adaptor
         \* does not hand out is destroyed, at the latest when the iterator is dropped
         LET n == e.b
             At(k) == IF k >= 1 /\ k <= len THEN <<s[k]>> ELSE <<>>
             got == CASE e.a = 0 -> At(n + 1)
                      [] e.a = 1 -> At(n + 1)
                      [] e.a = 2 -> [k \in 1..((len + n) \div (n + 1)) |-> s[(k - 1) * (n + 1) + 1]]
                      [] e.a = 3 -> At(len)
                      [] e.a = 4 -> <<>>
                      [] e.a = 5 -> At(len - n)
                      [] OTHER -> At(n + 1) \o At(2 * n + 2) \o At(2 * n + 3)
         IN [Res(SetV(NoVec), B) EXCEPT !.ret = got, !.drops = IdsOf(s) \ {got[k][1] : k \in 1..Len(got)}]
    [] e.op = "into_bump_slice" -> [Res(SetV(NoVec), B) EXCEPT !.ret = s, !.leaks = IdsOf(s)]
    [] e.op = "into_boxed_slice" ->
         \* the driver stores the boxed slice in box slot e.a
         [Res(SetV(NoVec), SetB(s)) EXCEPT !.ret = s, !.drops = IdsOf(sb)]
    [] e.op = "index" -> IF U(e.a) >= len THEN Panic(V, B) ELSE Res(V, B)
    [] e.op = "drop_vec" -> [Res(SetV(NoVec), B) EXCEPT !.drops = IdsOf(s)]
    \* ---- Box ----------------------------------------------------------------
    [] e.op = "box_new" -> [Res(V, SetB(<<New(val1)>>)) EXCEPT !.drops = IdsOf(sb)]
    [] e.op = "box_drop" -> IF hasb THEN [Res(V, SetB(NoVec)) EXCEPT !.drops = IdsOf(sb)] ELSE Res(V, B)
    [] e.op = "box_into_inner" -> IF hasb THEN [Res(V, SetB(NoVec)) EXCEPT !.ret = sb] ELSE Res(V, B)
    [] e.op = "box_leak" -> IF hasb THEN [Res(V, SetB(NoVec)) EXCEPT !.ret = sb, !.leaks = IdsOf(sb)] ELSE Res(V, B)
    [] e.op = "box_raw_roundtrip" -> IF hasb THEN [Res(V, B) EXCEPT !.ret = sb] ELSE Res(V, B)
    [] e.op = "box_from_iter" -> [Res(V, SetB(NewSeq(e.vals))) EXCEPT !.drops = IdsOf(sb), !.ret = NewSeq(e.vals)]
    [] e.op = "box_downcast" -> IF hasb THEN [Res(V, B) EXCEPT !.ret = sb] ELSE Res(V, B)
    [] e.op = "box_array" -> [Res(V, SetB(NewSeq(e.vals))) EXCEPT !.drops = IdsOf(sb), !.ret = NewSeq(e.vals)]
    [] e.op = "box_read" -> IF hasb THEN [Res(V, B) EXCEPT !.ret = sb] ELSE Res(V, B)
    [] OTHER -> Res(V, B)

(***************************************************************************)
(* Zero-sized elements cannot be told apart: the same semantics, counted.  *)
(* ZSem(e, len) = [panics, len (afterwards), ret (elements handed to the   *)
(* caller), gone (the vector itself is consumed)]                          *)
(***************************************************************************)
ZR(len) == [panics |-> FALSE, len |-> len, ret |-> 0, gone |-> FALSE]
ZP(len) == [ZR(len) EXCEPT !.panics = TRUE]
MinN(a, b) == IF a <= b THEN a ELSE b
ZSem(e, len) ==
  CASE e.op = "znew" -> ZR(0)
    [] e.op = "zbox_try_array" -> ZR(len)
    [] len < 0 -> ZR(len)                                   \* no vector: the driver does nothing
    [] e.op = "zpush" -> ZR(len + 1)
    [] e.op = "zpop" -> IF len = 0 THEN ZR(0) ELSE [ZR(len - 1) EXCEPT !.ret = 1]
    [] e.op = "zinsert" -> IF U(e.a) > len THEN ZP(len) ELSE ZR(len + 1)
    [] e.op \in {"zremove", "zswap_remove"} -> IF U(e.a) >= len THEN ZP(len) ELSE [ZR(len - 1) EXCEPT !.ret = 1]
    [] e.op = "ztruncate" -> ZR(MinN(len, U(e.a)))
    [] e.op = "zresize" -> ZR(e.a)
    [] e.op = "zextend" -> ZR(len + e.a)
    [] e.op = "zclear" -> ZR(0)
    [] e.op = "zdrain" ->
         IF RangePanics(e.rg, len) THEN ZP(len)
         ELSE LET n == REnd(e.rg, len) - RStart(e.rg) IN [ZR(len - n) EXCEPT !.ret = MinN(e.a, n)]
    [] e.op = "zsplit_off" -> IF U(e.a) > len THEN ZP(len) ELSE ZR(e.a)
    [] e.op = "zretain" -> ZR(IF e.flag = 1 THEN len ELSE 0)
    [] e.op = "zdedup" -> ZR(MinN(len, 1))
    [] e.op = "zinto_iter" -> [ZR(0) EXCEPT !.ret = MinN(len, e.a) + MinN(len - MinN(len, e.a), e.b), !.gone = TRUE]
    [] e.op = "zclone" -> ZR(len)
    [] e.op = "zreserve" -> IF e.a < 0 /\ len > 0 THEN ZP(len) ELSE ZR(len)     \* len + usize::MAX overflows
    [] e.op = "zdrop" -> [ZR(0) EXCEPT !.gone = TRUE]
    [] e.op = "zbox_try_array" -> ZR(len)
    [] OTHER -> ZR(len)
=============================================================================
