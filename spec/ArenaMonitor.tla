---------------------------- MODULE ArenaMonitor ----------------------------
(***************************************************************************)
(* Property-level trace specification for the arena (code -> spec).        *)
(*                                                                         *)
(* Reads a trace recorded from the real crate (one JSON object per API     *)
(* call, see harness/src/arena.rs `Event`), rebuilds the abstract state    *)
(*   held : the blocks the arena holds from the global allocator, in       *)
(*          acquisition order (the *ledger*, built solely from the calls   *)
(*          that reached #[global_allocator]),                             *)
(*   live : the blocks handed out and still live,                          *)
(* and evaluates the property formulas C01..C12, C18 on every step.        *)
(* It knows nothing about chunk sizing policy, padding or reclamation:     *)
(* every implementation that has the properties is accepted.               *)
(*                                                                         *)
(* The monitor reports, it does not block: a failing formula prints        *)
(*   <<"PROPFAIL", property, formula, line, <<program, step, op>>, witness>>*)
(* and the run continues, so one pass yields all violations of a trace.    *)
(***************************************************************************)
EXTENDS Integers, Sequences, FiniteSets, TLC, Json, IOUtils, SequencesExt

Rec == ndJsonDeserialize(IOEnv.TRACE)

VARIABLES l, held, live
vars == <<l, held, live>>

MaxI(a, b) == IF a >= b THEN a ELSE b
MinI(a, b) == IF a <= b THEN a ELSE b
RoundDown(n, a) == n - (n % a)
RoundUp(n, a)   == RoundDown(n + a - 1, a)
IsPow2(n) == n \in {1, 2, 4, 8, 16, 32, 64, 128, 256, 512, 1024, 2048, 4096}

Sum(seq) == FoldLeft(LAMBDA acc, x: acc + x, 0, seq)
RECURSIVE Log2Ceil(_)
Log2Ceil(n) == IF n <= 1 THEN 0 ELSE 1 + Log2Ceil((n + 1) \div 2)

\* ---- event accessors -----------------------------------------------------
\* ga entry: <<kind (1 alloc, 2 free), size, align, addr, ok>>
GaKind(g) == g[1]
GaSize(g) == g[2]
GaAlign(g) == g[3]
GaAddr(g) == g[4]
GaOk(g) == g[5] = 1
\* chunk entry: <<data, footer, finger>>; new entry: <<id, addr, size, align>>

AllocOps == {"alloc", "try_alloc", "alloc_with", "try_alloc_with", "alloc_layout", "try_alloc_layout",
             "alloc_slice_copy", "try_alloc_slice_copy", "alloc_slice_clone", "try_alloc_slice_clone",
             "alloc_str", "try_alloc_str",
             "alloc_slice_fill_with", "try_alloc_slice_fill_with", "alloc_slice_fill_copy",
             "try_alloc_slice_fill_copy", "alloc_slice_fill_clone", "try_alloc_slice_fill_clone",
             "alloc_slice_fill_iter", "try_alloc_slice_fill_iter", "alloc_slice_fill_default",
             "try_alloc_slice_fill_default", "allocate", "allocate_zeroed"}
TryWithOps == {"alloc_try_with", "try_alloc_try_with", "alloc_slice_try_fill_with", "alloc_slice_try_fill_iter"}
CtorOps == {"new", "with_capacity", "try_with_capacity"}
NoAcquireOps == {"new", "reset", "drop", "set_limit", "iter", "deallocate"}

\* ---- the ledger -----------------------------------------------------------
\* apply the global-allocator calls of one event to `h`; returns [h, bad]
\* where bad is the sequence of offending calls
RECURSIVE ApplyGa(_, _, _, _)
ApplyGa(h, ga, k, bad) ==
  IF k > Len(ga) THEN [h |-> h, bad |-> bad]
  ELSE LET g == ga[k] IN
       IF GaKind(g) = 1
       THEN IF GaOk(g) THEN ApplyGa(Append(h, <<GaAddr(g), GaSize(g), GaAlign(g)>>), ga, k + 1, bad)
            ELSE ApplyGa(h, ga, k + 1, bad)
       ELSE LET idx == SelectInSeq(h, LAMBDA b: b[1] = GaAddr(g)) IN
            IF idx = 0
            THEN ApplyGa(h, ga, k + 1, Append(bad, <<"not-held", g>>))
            ELSE IF h[idx][2] # GaSize(g) \/ h[idx][3] # GaAlign(g)
                 THEN ApplyGa(RemoveAt(h, idx), ga, k + 1, Append(bad, <<"wrong-layout", g, h[idx]>>))
                 ELSE ApplyGa(RemoveAt(h, idx), ga, k + 1, bad)

\* usable bytes held after the first k ga calls were applied (for the limit check)
RECURSIVE HeldAfter(_, _, _)
HeldAfter(h, ga, k) == ApplyGa(h, SubSeq(ga, 1, k), 1, <<>>).h

Chk(prop, name, cond, wit) ==
  IF cond THEN TRUE
  ELSE PrintT(<<"PROPFAIL", prop, name, l, <<Rec[l].p, Rec[l].i, Rec[l].op, Rec[l].ma>>, wit>>)

\* ---- one step -------------------------------------------------------------
Step ==
  /\ l <= Len(Rec)
  /\ LET e      == Rec[l]
         first  == e.i = 0
         hasPrev == l > 1 /\ ~first /\ Rec[l - 1].p = e.p
         pe     == IF hasPrev THEN Rec[l - 1] ELSE e
         heldB  == IF first THEN <<>> ELSE held
         liveB  == IF first THEN {} ELSE live
         ap     == ApplyGa(heldB, e.ga, 1, <<>>)
         heldA  == ap.h
         dead   == {e.dead[k] : k \in 1..Len(e.dead)}
         new    == {e.new[k] : k \in 1..Len(e.new)}
         liveA  == {b \in liveB : b[1] \notin dead} \cup new
         ma     == e.ma
         validMa == ma \in {1, 2, 4, 8, 16}
         chunks == e.chunks
         nch    == Len(chunks)
         \* observed per-chunk bookkeeping size: block end minus footer address
         BlockOf(c) == SelectInSeq(heldA, LAMBDA b: b[1] = c[1])
         Ks     == {IF BlockOf(chunks[k]) = 0 THEN -1
                    ELSE heldA[BlockOf(chunks[k])][1] + heldA[BlockOf(chunks[k])][2] - chunks[k][2] : k \in 1..nch}
         K      == IF Ks = {} THEN 0 ELSE CHOOSE x \in Ks : TRUE
         sizes  == [k \in 1..Len(heldA) |-> heldA[k][2]]
         total  == Sum(sizes)
         grants == {k \in 1..Len(e.ga) : GaKind(e.ga[k]) = 1 /\ GaOk(e.ga[k])}
         refusals == {k \in 1..Len(e.ga) : GaKind(e.ga[k]) = 1 /\ ~GaOk(e.ga[k])}
         frees  == {k \in 1..Len(e.ga) : GaKind(e.ga[k]) = 2}
         \* a panic raised by the caller's own initialiser (programmed by the driver) is not the arena's failure
         userPanic == e.pp = 1
         failed == e.res \in {"err", "panic", "hang"} /\ ~userPanic
         limB   == IF hasPrev THEN pe.lim ELSE -1
         plain  == e.op \in AllocOps
                   \/ (e.op \in TryWithOps /\ e.clos \in {"", "Nothing"})
         fitsCur == /\ hasPrev /\ plain /\ validMa /\ e.size >= 0
                    /\ e.align <= ma
                    /\ RoundUp(e.size, ma) <= pe.cap
                    /\ pe.res # "hang"
     IN
     \* ------------------------------------------------------------ C03 ----
     /\ Chk("C03", "FreeMatchesHeldBlockAndLayout", ap.bad = <<>>, ap.bad)
     /\ Chk("C03", "FreeOnlyInResetOrDrop", frees = {} \/ e.op \in {"reset", "drop"}, e.ga)
     /\ Chk("C03", "DropReleasesEverything", e.op = "drop" => heldA = <<>>, heldA)
     /\ Chk("C03", "ResetKeepsAtMostOne",
            e.op = "reset" => Len(heldA) <= 1 /\ grants = {}, heldA)
     /\ Chk("C03", "NoAcquisitionOutsideAllocation", e.op \in NoAcquireOps => grants = {}, e.ga)
     /\ Chk("C03", "FailureKeepsHeldMemory", (failed /\ e.op \notin {"drop"}) => heldA = heldB, <<heldB, heldA>>)
     /\ Chk("C03", "HeldBlocksAreTheChunks",
            (validMa /\ e.op # "drop") =>
               {heldA[k][1] : k \in 1..Len(heldA)} = {chunks[k][1] : k \in 1..nch},
            <<heldA, chunks>>)
     \* ------------------------------------------------------------ C08 ----
     /\ Chk("C08", "InclMetadataEqualsHeldTotal", e.abm = total, <<e.abm, total>>)
     /\ Chk("C08", "BookkeepingSizeIsFixed", Cardinality(Ks) <= 1 /\ -1 \notin Ks, Ks)
     /\ Chk("C08", "AllocatedBytesIsTotalMinusBookkeeping",
            (Cardinality(Ks) <= 1 /\ -1 \notin Ks) => e.ab = total - Len(heldA) * K,
            <<e.ab, total, Len(heldA), K>>)
     /\ Chk("C08", "ZeroWhenNothingHeld", heldA = <<>> => e.ab = 0 /\ e.abm = 0, <<e.ab, e.abm>>)
     /\ Chk("C08", "ChangesOnlyWithChunks",
            (hasPrev /\ grants = {} /\ frees = {}) => e.ab = pe.ab /\ e.abm = pe.abm,
            <<pe.ab, e.ab, pe.abm, e.abm>>)
     \* ------------------------------------------------------------ C01 ----
     /\ \A b \in new :
          /\ Chk("C01", "NonNull", b[2] > 0, b)
          /\ Chk("C01", "InsideHeldMemoryBelowBookkeeping",
                 b[3] > 0 => \E k \in 1..nch :
                    /\ chunks[k][1] >= 0 /\ chunks[k][1] <= b[2]
                    /\ b[2] + b[3] <= chunks[k][2]
                    /\ BlockOf(chunks[k]) # 0,
                 <<b, chunks>>)
          /\ Chk("C01", "DisjointFromLive",
                 b[3] > 0 => \A o \in liveA \ {b} :
                    o[3] = 0 \/ b[2] + b[3] <= o[2] \/ o[2] + o[3] <= b[2],
                 <<b, {o \in liveA \ {b} : o[3] > 0 /\ ~(b[2] + b[3] <= o[2] \/ o[2] + o[3] <= b[2])}>>)
          \* -------------------------------------------------------- C04 ----
          /\ Chk("C04", "AlignedAsRequested", b[2] % b[4] = 0, b)
          \* (the &mut T handed out by alloc_try_with points *into* the reserved Result<T, E> slot:
          \*  the slot is what was allocated, its interior need not be MIN_ALIGN-aligned)
          /\ Chk("C04", "AlignedToMinAlign",
                 (validMa /\ ~(e.op \in {"alloc_try_with", "try_alloc_try_with"} /\ b[2] = e.addr /\ e.off # 0)) => b[2] % ma = 0,
                 <<b, ma>>)
     /\ Chk("C04", "InvalidMinAlignRefused",
            (e.op \in CtorOps /\ ~validMa) => e.res = "panic", e.res)
     /\ Chk("C04", "ValidMinAlignAccepted",
            (e.op \in CtorOps /\ validMa /\ refusals = {}) => e.res = "ok", e.res)
     \* ------------------------------------------------------------ C02 ----
     /\ Chk("C02", "LiveBlocksIntact", e.corrupt = <<>>, e.corrupt)
     /\ Chk("C02", "ReadsBackWhatWasSupplied", e.init_ok = 1, e.op)
     /\ Chk("C02", "InitialiserCalledOncePerElementInOrder",
            (e.cbn >= 0 /\ e.res \in {"ok", "initerr"}) => e.cb = [k \in 1..e.cbn |-> k - 1],
            <<e.cbn, e.cb>>)
     /\ Chk("C02", "GrowShrinkKeepPrefix", e.prefix_ok = 1, e.op)
     \* ------------------------------------------------------------ C12 ----
     /\ Chk("C12", "PrefixPreserved", e.op \in {"grow", "grow_zeroed", "shrink"} => e.prefix_ok = 1, e.op)
     /\ Chk("C12", "ZeroedTail", e.op \in {"grow_zeroed", "allocate_zeroed"} => e.zero_ok = 1, e.op)
     /\ Chk("C12", "ErrorLeavesOldBlock",
            (e.op \in {"grow", "grow_zeroed", "shrink"} /\ e.res = "err") => e.dead = <<>>, e.dead)
     \* ------------------------------------------------------------ C06 ----
     /\ Chk("C06", "NothingAllocatedAfterReset",
            e.op = "reset" => nch <= 1 /\ \A k \in 1..nch : chunks[k][3] = chunks[k][2], chunks)
     /\ Chk("C06", "AtMostOneBlockAfterReset", e.op = "reset" => Len(heldA) <= 1, heldA)
     /\ Chk("C06", "FullCapacityAfterReset",
            (e.op = "reset" /\ nch = 1 /\ validMa) => e.cap >= (chunks[1][2] - chunks[1][1]) - (ma - 1),
            <<e.cap, chunks>>)
     /\ Chk("C06", "LimitKept", (e.op = "reset" /\ hasPrev) => e.lim = pe.lim, <<pe.lim, e.lim>>)
     /\ Chk("C06", "ResetOfEmptyArenaIsNoOp",
            (e.op = "reset" /\ heldB = <<>>) => e.ga = <<>> /\ nch = 0 /\ e.cap = 0, e.ga)
     /\ Chk("C06", "ReportedCapacityServableWithoutNewMemory",
            e.follow = 2 => e.ga = <<>> /\ e.res = "ok", <<e.size, pe.cap, e.res, e.ga>>)
     \* ------------------------------------------------------------ C07 ----
     /\ \A k \in grants :
          Chk("C07", "LimitNotExceededByNewChunk",
              (limB >= 0 /\ e.op \notin CtorOps) =>
                 LET h == HeldAfter(heldB, e.ga, k)
                     usable == Sum([j \in 1..Len(h) |-> h[j][2]]) - Len(h) * K
                 IN usable <= limB,
              <<limB, e.ga[k], heldB, K>>)
     /\ Chk("C07", "RequestThatFitsSucceedsWhateverTheLimit",
            (fitsCur /\ e.follow # 2 /\ ~userPanic) => e.res \in {"ok", "initerr"}, <<e.size, e.align, pe.cap, limB, e.res>>)
     \* ------------------------------------------------------------ C18 ----
     /\ Chk("C18", "CapacityNeverOverstated",
            (fitsCur /\ e.follow # 2) => e.ga = <<>>, <<e.size, e.align, pe.cap, e.ga>>)
     /\ Chk("C18", "RequestedCapacityHonoured",
            (e.op \in {"with_capacity", "try_with_capacity"} /\ e.res = "ok" /\ validMa) => e.cap >= e.len,
            <<e.len, e.cap>>)
     /\ \A k \in grants :
          Chk("C18", "NewChunkAtLeastDoubleUnlessConstrained",
              LET hb == HeldAfter(heldB, e.ga, k - 1) IN
              (e.op \notin CtorOps /\ limB = -1 /\ {j \in refusals : j < k} = {} /\ hb # <<>>) =>
                 GaSize(e.ga[k]) - K >= 2 * (hb[Len(hb)][2] - K),
              <<e.ga[k], heldB>>)
     \* volume workloads: the number of chunks grows at most logarithmically with the bytes stored and the
     \* memory held stays within a constant factor of what the requests occupy
     /\ Chk("C18", "ChunkCountLogarithmicInVolume",
            (e.op = "bulk" /\ e.res = "ok" /\ limB = -1 /\ e.size > 0) =>
               Len(heldA) <= 4 + Log2Ceil((e.size * e.len) \div 448 + 1),
            <<Len(heldA), e.size, e.len>>)
     /\ Chk("C18", "HeldWithinConstantFactorOfVolume",
            (e.op = "bulk" /\ e.res = "ok" /\ limB = -1 /\ e.size > 0 /\ hasPrev /\ pe.op \in CtorOps) =>
               total \div 8 <= ((RoundUp(e.size, MaxI(e.align, IF validMa THEN ma ELSE 1)) * e.len) \div 2) + pe.abm + 4096,
            <<total, e.size, e.len>>)
     \* ------------------------------------------------------------ C09 ----
     /\ Chk("C09", "NoHang", e.res # "hang", e.op)
     /\ Chk("C09", "FallibleNeverPanics", (e.fall = 1 /\ ~userPanic) => e.res # "panic", e.res)
     /\ Chk("C09", "ErrChangesNothing",
            (hasPrev /\ e.res \in {"err", "panic"} /\ ~userPanic /\ e.op \notin CtorOps) =>
               /\ heldA = heldB /\ e.chunks = pe.chunks /\ e.cap = pe.cap
               /\ e.ab = pe.ab /\ e.new = <<>>,
            <<pe.chunks, e.chunks>>)
     \* ------------------------------------------------------------ C10 ----
     /\ Chk("C10", "SafeAndRawIteratorsAgree", e.op = "iter" => e.it = e.itraw, <<e.it, e.itraw>>)
     /\ Chk("C10", "OneSlicePerHeldBlockNewestFirst",
            e.op = "iter" =>
               /\ Len(e.it) = Len(heldA)
               /\ \A k \in 1..Len(e.it) :
                    LET b == heldA[Len(heldA) + 1 - k] IN
                    /\ b[1] <= e.it[k][1]
                    /\ e.it[k][1] + e.it[k][2] <= b[1] + b[2] - K,
            <<e.it, heldA>>)
     /\ Chk("C10", "EveryLiveBlockInExactlyOneSlice",
            e.op = "iter" =>
               \A b \in liveA : b[3] > 0 =>
                  Cardinality({k \in 1..Len(e.it) : e.it[k][1] <= b[2] /\ b[2] + b[3] <= e.it[k][1] + e.it[k][2]}) = 1,
            <<e.it>>)
     \* the chunk snapshot of every event is what iter_allocated_chunks_raw would yield right now
     /\ Chk("C10", "EveryLiveBlockInsideAllocatedRegion",
            (e.op # "drop" /\ validMa) =>
               \A b \in liveA : b[3] > 0 =>
                  \E k \in 1..nch : chunks[k][3] <= b[2] /\ b[2] + b[3] <= chunks[k][2],
            <<{b \in liveA : b[3] > 0 /\ ~\E k \in 1..nch : chunks[k][3] <= b[2] /\ b[2] + b[3] <= chunks[k][2]}, chunks>>)
     /\ Chk("C10", "UniformSlicesContainExactlyTheObjects",
            (e.op = "iter" /\ e.tag = "uniform") =>
               \A k \in 1..Len(e.it) :
                  LET inside == {b \in liveA : e.it[k][1] <= b[2] /\ b[2] + b[3] <= e.it[k][1] + e.it[k][2] /\ b[3] > 0}
                      ids == SetToSortSeq(inside, LAMBDA x, y: x[2] < y[2])
                  IN /\ Sum([j \in 1..Len(ids) |-> ids[j][3]]) = e.it[k][2]
                     \* most recent first: ascending address = descending id
                     /\ \A j \in 1..(Len(ids) - 1) : ids[j][1] > ids[j + 1][1],
            <<e.it, liveA>>)
     \* ------------------------------------------------------------ C11 ----
     /\ Chk("C11", "InitialiserNotRunWithoutSpace",
            (e.cbn >= 0 /\ e.res \in {"err", "panic"} /\ ~userPanic) => e.cb = <<>>, e.cb)
     /\ Chk("C11", "ErrorDeliveredExactlyOnce",
            e.errtok >= 0 => /\ e.errdrops = 0
                             /\ e.errtok = (IF e.res = "initerr" THEN 1 ELSE 0),
            <<e.res, e.errtok, e.errdrops>>)
     /\ Chk("C11", "FailedSlotIsReusable",
            (e.follow = 1 /\ hasPrev /\ pe.res = "initerr" /\ pe.clos \in {"", "Nothing"}) =>
               e.ga = <<>> /\ e.res = "ok",
            <<pe.op, pe.size, pe.align, e.ga, e.res>>)
     \* ------------------------------------------------------------ C16 ----
     \* a panicking initialiser (alloc_with, slice fills, clones, iterators, alloc_try_with): the panic reaches
     \* the caller, nothing is handed out, nothing is given back, every live block is intact; the events that
     \* follow (same program) show that the arena is still usable
     /\ Chk("C16", "InitialiserPanicPropagatesAndHandsOutNothing",
            userPanic => e.res = "panic" /\ e.new = <<>> /\ frees = {} /\ e.corrupt = <<>>, <<e.res, e.new, e.ga>>)
     /\ Chk("C16", "ArenaUsableAfterInitialiserPanic",
            (hasPrev /\ pe.pp = 1 /\ plain /\ e.pp = 0 /\ refusals = {} /\ limB = -1) => e.res \in {"ok", "initerr"},
            <<e.op, e.res>>)
     \* ------------------------------------------------------------ C20 ----
     \* the static empty chunk is shared by all chunk-less arenas on all threads: any store
     \* into it races with the same store made for another arena on another thread
     /\ Chk("C20", "SharedEmptyChunkNeverWritten",
            \A k \in 1..Len(e.stores) : e.stores[k][2] = 0, e.stores)
     \* ---- arena-level view of collection programs (API hooks) ------------------
     \* Vec / String hand the arena exactly the blocks they got from it: every dealloc / grow / shrink they
     \* issue names a live block with its own size (otherwise neighbours get disturbed sooner or later)
     /\ Chk(IF e.tag = "str" THEN "C14" ELSE "C13", "CollectionsHonourTheArenaContract",
            (e.tag \in {"coll", "collx", "str"} /\ e.op \in {"deallocate", "grow", "shrink"}) => e.blk >= 0,
            <<e.op, e.ptr, e.len, e.oalign>>)
     \* ---------------------------------------------------------------------
     /\ held' = heldA
     /\ live' = liveA
     /\ l' = l + 1

Init == l = 1 /\ held = <<>> /\ live = {}
Spec == Init /\ [][Step]_vars

Accepted ==
  IF TLCGet("stats").diameter - 1 = Len(Rec) THEN PrintT(<<"ACCEPTED", Len(Rec)>>)
  ELSE PrintT(<<"REJECTED at", TLCGet("stats").diameter, Len(Rec)>>) /\ FALSE
=============================================================================
