------------------------------ MODULE StrTrace ------------------------------
(***************************************************************************)
(* Trace validation of String executions (bumpalo's and std's twins)       *)
(* against Str!Sem and the transcribed decoders.                           *)
(***************************************************************************)
EXTENDS Str, Json, IOUtils

Rec == ndJsonDeserialize(IOEnv.TRACE)

VARIABLES l, text, alive
svars == <<l, text, alive>>

Chk(prop, name, cond, wit) ==
  IF cond THEN TRUE
  ELSE PrintT(<<IF Rec[l].im = "std" THEN "SPECFAIL" ELSE "PROPFAIL", prop, name, l,
                <<Rec[l].p, Rec[l].i, Rec[l].op, Rec[l].im>>, wit>>)

Step ==
  /\ l <= Len(Rec)
  /\ LET e == Rec[l]
         first == e.i = 0
         t0 == IF first THEN <<>> ELSE text
         al0 == IF first THEN FALSE ELSE alive
         creates == e.op \in {"new", "from_str", "from_iter", "from_utf8_unchecked"}
         decoder == e.op \in {"from_utf8", "from_utf8_lossy", "from_utf16"}
         acts == creates \/ (al0 /\ ~decoder)
         x == Sem(e, t0)
         panicked == e.res = "panic"
         \* growth refused by the arena (driver op ArenaNoGrow): an out-of-memory panic is legitimate there
         refused == e.nogrow = 1 /\ panicked
         okPath == e.pp = 0 /\ ~refused
     IN
     /\ Chk("C14", "AlwaysValidUtf8", (e.alive = 1 /\ e.pp = 0) => e.utf8 = 1, e.bytes)
     /\ Chk("C14", "ValidUtf8AfterRefusedGrowth", (e.alive = 1 /\ refused) => e.utf8 = 1, e.bytes)
     /\ Chk("C16", "StringStillValidUtf8AfterPanic", (e.alive = 1 /\ e.pp = 1) => e.utf8 = 1, e.bytes)
     /\ Chk("C14", "BytesEncodeTheText", (e.alive = 1 /\ e.utf8 = 1) => e.bytes = EncAll(e.text), <<e.bytes, e.text>>)
     /\ Chk("C14", "PanicsExactlyWhenStdDoes", (acts /\ okPath) => (panicked = x.panics), <<e.res, x.panics, e.a, e.rg, t0>>)
     /\ Chk("C14", "TextAsSpecified",
            (acts /\ okPath /\ panicked = x.panics /\ ~x.gone) => e.alive = 1 /\ e.utf8 = 1 /\ e.text = x.text,
            <<x.text, e.text>>)
     /\ Chk("C14", "ReturnsAsSpecified", (acts /\ okPath /\ ~panicked /\ ~x.panics) => e.ret = x.ret, <<x.ret, e.ret>>)
     /\ Chk("C14", "ProducedStringAsSpecified",
            (acts /\ okPath /\ ~panicked /\ ~x.panics /\ x.hasOther) => e.otherok = 1 /\ e.other = x.other,
            <<x.other, e.other>>)
     \* every read-only view / comparison / formatting / hashing of the String agrees with the same on its text
     /\ Chk("C14", "ViewsAgreeWithTheText", (e.op = "str_views" /\ ~panicked) => e.retn = 0, <<e.s, e.retn>>)
     /\ Chk("C14", "IntoBytesHandsOverTheSameBytes", (e.op = "into_bytes_roundtrip" /\ ~panicked) => e.retn = 1, e.retn)
     /\ Chk("C14", "CapacityNeverBelowLength", e.len >= 0 => e.cap >= e.len, <<e.len, e.cap>>)
     /\ Chk("C14", "ReservedCapacityAvailable",
            (e.op \in {"reserve", "reserve_exact"} /\ e.res = "ok" /\ e.len >= 0 /\ e.a >= 0) => e.cap >= e.len + e.a,
            <<e.len, e.a, e.cap>>)
     /\ Chk("C18", "AmortisedGrowthAtLeastDoubles",
            (e.moved = 1 /\ e.cap0 > 0 /\ ~panicked /\ e.op \in {"push", "push_str", "insert", "insert_str", "extend", "write_fmt", "reserve", "extend_strs", "add", "add_assign", "as_mut_vec_push"})
               => e.cap >= 2 * e.cap0, <<e.op, e.cap0, e.cap>>)
     /\ Chk("C18", "NoMoveWithinReservedCapacity",
            (e.moved = 1 /\ e.op \in {"push", "push_str", "insert", "insert_str", "extend", "write_fmt", "extend_strs", "add", "add_assign", "as_mut_vec_push"} /\ ~panicked /\ e.cap0 >= 0)
               => e.len > e.cap0, <<e.len, e.cap0>>)
     \* ---- decoders --------------------------------------------------------
     /\ Chk("C14", "FromUtf8AcceptsExactlyWellFormedInput",
            e.op = "from_utf8" =>
               LET s == Strict(e.inb, 1, <<>>) IN
               /\ (e.res = "ok") = s.ok
               /\ s.ok => e.other = s.text
               /\ ~s.ok => e.retn = s.upto /\ e.retm = s.elen /\ e.flag = 1,
            <<e.inb, e.res, e.retn, e.retm, Strict(e.inb, 1, <<>>)>>)
     /\ Chk("C14", "DecoderOutputIsValidUtf8", e.op \in {"from_utf8_lossy", "from_utf8", "from_utf16"} => e.utf8 = 1, <<e.inb, e.bytes>>)
     /\ Chk("C14", "LossyRepairsByMaximalSubparts",
            e.op = "from_utf8_lossy" => e.res = "ok" /\ e.otherok = 1 /\ e.other = Lossy(e.inb, 1, <<>>),
            <<e.inb, e.other, Lossy(e.inb, 1, <<>>)>>)
     /\ Chk("C14", "FromUtf16AcceptsExactlyPairedSurrogates",
            e.op = "from_utf16" =>
               LET s == Utf16(e.inb, 1, <<>>) IN (e.res = "ok") = s.ok /\ (s.ok => e.other = s.text),
            <<e.inb, e.res, e.other>>)
     /\ text' = e.text
     /\ alive' = (e.alive = 1)
     /\ l' = l + 1

Init == l = 1 /\ text = <<>> /\ alive = FALSE
Spec == Init /\ [][Step]_svars

Accepted ==
  IF TLCGet("stats").diameter - 1 = Len(Rec) THEN PrintT(<<"ACCEPTED", Len(Rec)>>)
  ELSE PrintT(<<"REJECTED at", TLCGet("stats").diameter, Len(Rec)>>) /\ FALSE
=============================================================================
