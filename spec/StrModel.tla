------------------------------ MODULE StrModel ------------------------------
(***************************************************************************)
(* (A) for String: laws of the reference semantics Str.tla, checked by TLC *)
(* over ALL inputs of a small scope (the trace spec uses Str.tla as the    *)
(* oracle for real executions; this checks the oracle).                    *)
(*   Decoders (all byte strings of length <= MaxBytes over one             *)
(*   representative of each of the 14 byte classes of Table 3-7):          *)
(*     RoundTrip      Strict(b) accepts  =>  EncAll(text) = b              *)
(*     ScalarValues   every code point produced (Strict, Lossy) is a       *)
(*                    Unicode scalar value (no surrogate, <= 10FFFF)       *)
(*     LossyAgrees    Strict accepts => Lossy(b) = Strict(b).text;         *)
(*                    Strict rejects => Lossy contains U+FFFD              *)
(*     ErrorPosition  the rejected prefix is itself accepted, and its      *)
(*                    encoding is exactly the first `upto` bytes           *)
(*     LossyTotal     Lossy consumes every byte; re-encoding never yields  *)
(*                    fewer characters than maximal subparts require       *)
(*   Operations (all texts of <= MaxChars chars over 1/2/3/4-byte chars,   *)
(*   every byte index 0..len+1 and usize::MAX, every range form):          *)
(*     PanicIffNotBoundary  an indexed call panics exactly when an index   *)
(*                    is out of range or inside a character                *)
(*     ByteLenLaws    the byte length after each call                      *)
(*     SplitJoin      split_off / drain / remove / pop return what they    *)
(*                    took and text = kept + taken                         *)
(***************************************************************************)
EXTENDS Str

CONSTANTS MaxBytes, MaxChars

Reps == {0, 127, 128, 143, 144, 159, 160, 191, 192, 194, 223, 224, 225, 237, 238, 240, 241, 244, 245, 255}
Alpha == {97, 233, 8364, 128512}

RECURSIVE SeqsUpTo(_, _)
SeqsUpTo(S, n) == IF n = 0 THEN {<<>>} ELSE LET Prev == SeqsUpTo(S, n - 1) IN Prev \cup {Append(r, x) : r \in {q \in Prev : Len(q) = n - 1}, x \in S}

IsScalar(c) == c >= 0 /\ c <= 1114111 /\ ~(c >= 55296 /\ c <= 57343)
AllScalar(t) == \A i \in 1..Len(t) : IsScalar(t[i])

DecoderLaws(b) ==
  LET s == Strict(b, 1, <<>>)
      l == Lossy(b, 1, <<>>)
  IN /\ AllScalar(s.text) /\ AllScalar(l)
     /\ (s.ok => EncAll(s.text) = b /\ l = s.text /\ s.upto = Len(b))
     /\ (~s.ok => /\ 65533 \in {l[i] : i \in 1..Len(l)}
                  /\ s.upto < Len(b)
                  /\ EncAll(s.text) = SubSeq(b, 1, s.upto)
                  /\ Strict(SubSeq(b, 1, s.upto), 1, <<>>).ok
                  /\ (s.elen = -1 \/ (s.elen >= 1 /\ s.elen <= 3 /\ s.upto + s.elen <= Len(b)))
                  \* "unexpected end": the remaining bytes are a proper prefix of a well-formed sequence
                  /\ (s.elen = -1 => Len(b) - s.upto <= 3))
     /\ Len(l) <= Len(b)
     /\ (Len(b) > 0 => Len(l) > 0)

\* encoding then decoding is the identity on texts
EncDec(t) == LET b == EncAll(t) IN Strict(b, 1, <<>>).ok /\ Strict(b, 1, <<>>).text = t /\ Len(b) = ByteLen(t)

E0 == [op |-> "", a |-> 0, b |-> -1, flag |-> 0, rg |-> <<0, 0, 0, 0>>, s |-> <<>>]
Idx(t) == (0..(ByteLen(t) + 1)) \cup {-1}
Ranges(n) == {<<0, 0, 0, 0>>} \cup {<<1, s, 2, e>> : s \in 0..(n + 1), e \in 0..(n + 1)} \cup {<<1, s, 1, e>> : s \in 0..n, e \in {0, n, -1}}
             \cup {<<2, s, 0, 0>> : s \in {0, -1}} \cup {<<0, 0, 1, e>> : e \in 0..n} \cup {<<0, 0, 2, e>> : e \in 0..(n + 1)}

OpLaws(t) ==
  LET n == ByteLen(t)
      InRange(i) == i >= 0 /\ i <= n
      Inside(i) == i >= 0 /\ i <= n /\ ~IsBoundary(t, i)
  IN /\ \A i \in Idx(t) :
          LET ins == Sem([E0 EXCEPT !.op = "insert", !.a = i, !.s = <<233>>], t)
              rem == Sem([E0 EXCEPT !.op = "remove", !.a = i], t)
              tru == Sem([E0 EXCEPT !.op = "truncate", !.a = i], t)
              spl == Sem([E0 EXCEPT !.op = "split_off", !.a = i], t)
          IN /\ ins.panics = (~InRange(i) \/ Inside(i))
             /\ (~ins.panics => ByteLen(ins.text) = n + 2 /\ Len(ins.text) = Len(t) + 1)
             /\ rem.panics = (i < 0 \/ i >= n \/ Inside(i))
             /\ (~rem.panics => Len(rem.ret) = 1 /\ ByteLen(rem.text) + Width(rem.ret[1]) = n)
             /\ tru.panics = (i >= 0 /\ i < n /\ Inside(i))
             /\ (~tru.panics => ByteLen(tru.text) = (IF i < 0 \/ i >= n THEN n ELSE i))
             /\ spl.panics = (~InRange(i) \/ Inside(i))
             /\ (~spl.panics => spl.text \o spl.other = t /\ ByteLen(spl.text) = i)
     /\ \A r \in Ranges(n) :
          LET dr == Sem([E0 EXCEPT !.op = "drain", !.rg = r, !.a = 9, !.b = 0], t)
              db == Sem([E0 EXCEPT !.op = "drain", !.rg = r, !.a = 1, !.b = 1], t)
              rp == Sem([E0 EXCEPT !.op = "replace_range", !.rg = r, !.s = <<8364>>], t)
              sl == Sem([E0 EXCEPT !.op = "slice", !.rg = r], t)
              bad == SlicePanics(t, r)
          IN /\ dr.panics = bad /\ rp.panics = bad /\ sl.panics = bad /\ db.panics = bad
             /\ (~bad => /\ ByteLen(dr.text) + ByteLen(dr.ret) = n
                         /\ dr.ret = sl.other
                         /\ ByteLen(rp.text) = n - ByteLen(sl.other) + 3
                         /\ Len(db.ret) = (IF Len(sl.other) >= 2 THEN 2 ELSE Len(sl.other))
                         /\ (Len(sl.other) >= 2 => db.ret = <<sl.other[1], sl.other[Len(sl.other)]>>)
                         /\ db.text = dr.text)
     /\ LET p == Sem([E0 EXCEPT !.op = "pop"], t) IN
          IF t = <<>> THEN p.ret = <<>> /\ p.text = <<>> ELSE p.text \o p.ret = t
     /\ Sem([E0 EXCEPT !.op = "ascii_upper", !.a = 0], t) = R([i \in 1..Len(t) |-> IF t[i] = 97 THEN 65 ELSE t[i]])
     /\ EncDec(t)

ASSUME DecodersOk == \A b \in SeqsUpTo(Reps, MaxBytes) : (DecoderLaws(b) \/ (PrintT(<<"DECODER-LAW-FAILS", b, Strict(b, 1, <<>>), Lossy(b, 1, <<>>)>>) /\ FALSE))
ASSUME OpsOk == \A t \in SeqsUpTo(Alpha, MaxChars) : (OpLaws(t) \/ (PrintT(<<"OP-LAW-FAILS", t>>) /\ FALSE))

VARIABLE done
Init == done = FALSE
Next == done' = TRUE
Spec == Init /\ [][Next]_done
=============================================================================
