SPECIFICATION Spec
CHECK_DEADLOCK FALSE
CONSTANTS
  N = 4
  Machine = "dedup"
  Variant = "copy_not_swap"
INVARIANTS
  NoDuplicate
  NothingDropped
  NothingMovedOut
  NoDoubleDrop
  NoLeakWithoutPanic
  ValidUtf8
