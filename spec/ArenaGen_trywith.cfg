SPECIFICATION GSpec
VIEW GView
CHECK_DEADLOCK FALSE
CONSTANTS
  CHUNK_ALIGN = 16
  FOOTER = 48
  MALLOC_OVERHEAD = 16
  FIRST_GOAL = 512
  PAGE = 4096
  SentAddrs = {4096}
  SLOT = 1048576
  MinAligns = {1, 8}
  Sizes = {12, 420}
  Aligns = {4}
  Caps = {}
  Limits = {}
  MaxSlots = 5
  MaxLive = 4
  MaxRefuse = 0
  GrowIncs = {}
  ShrinkDecs = {}
  ClosSizes = {30}
  TrackLive = TRUE
  EnableTryFill = FALSE
  TwSlots <- TwReal
  MaxDepth = 4
INVARIANTS
  Emit
  NoObligationFailed
  InBounds
  Disjoint
  AlignedBlocks
  FingerInv
  LiveAboveFinger
  HeapIsChunks
  Accounting
