SPECIFICATION GSpec
VIEW GView
CHECK_DEADLOCK FALSE
CONSTANTS
  CHUNK_ALIGN = 16
  FOOTER = 48
  MALLOC_OVERHEAD = 16
  FIRST_GOAL = 512
  PAGE = 4096
  SentAddrs = {4096}
  SLOT = 1048576
  MinAligns = {1, 8}
  Sizes = {0, 4, 12, 436, 5000}
  Aligns = {1, 4, 16, 64}
  Caps = {100}
  Limits = {500}
  MaxSlots = 6
  MaxLive = 3
  MaxRefuse = 0
  GrowIncs = {1, 8}
  ShrinkDecs = {0, 8}
  ClosSizes = {}
  TrackLive = TRUE
  EnableTryFill = FALSE
  TwSlots <- TwNone
  MaxDepth = 4
INVARIANTS
  Emit
  NoObligationFailed
  InBounds
  Disjoint
  AlignedBlocks
  FingerInv
  LiveAboveFinger
  HeapIsChunks
  Accounting
