------------------------------ MODULE CollModel ------------------------------
(***************************************************************************)
(* (A) for the collections: the reference semantics Coll!Sem explored as a *)
(* state machine by TLC.  CollTrace.tla uses Sem as the oracle for real    *)
(* executions; this module checks the oracle itself, for EVERY sequence of *)
(* calls (menu below) on two vectors and a box slot at small scope:        *)
(*   Conservation  every element that existed before a call or was created *)
(*                 by it is, afterwards, in exactly one place: a vector, a *)
(*                 box, the caller's hands (ret), destroyed (drops) or     *)
(*                 legitimately leaked -- C15's "dropped exactly once,     *)
(*                 only by its owner" as a law of the specification;       *)
(*   NoAlias       no identity occurs twice in the containers;             *)
(*   PanicIsAtomic a call that panics on its arguments leaves the          *)
(*                 vector it was applied to untouched;                     *)
(*   LengthLaws    the documented length arithmetic of each call.          *)
(* A violation here is a defect of the specification (tool error), found   *)
(* before it can mis-judge the code.                                       *)
(***************************************************************************)
EXTENDS Coll

CONSTANTS MaxLen, MaxId

VARIABLES V, B, nid, last, err
mvars == <<V, B, nid, last, err>>
\* `last` (the call just made, for the laws and for reading a counterexample) is kept out of the fingerprint;
\* `err` (the laws that call broke) is in it, so a law-breaking transition is never merged away
View == <<V, B, nid, err>>

E0 == [op |-> "", v |-> 0, w |-> 1, a |-> 0, b |-> 0, flag |-> 0, rg |-> <<0, 0, 0, 0>>, vals |-> <<>>]
Ranges(n) == {<<0, 0, 0, 0>>} \cup {<<1, s, 2, t>> : s \in 0..n, t \in 0..(n + 1)} \cup {<<1, s, 1, t>> : s \in 0..n, t \in {0, n, -1}}
                              \cup {<<2, s, 0, 0>> : s \in {0, -1}} \cup {<<0, 0, 1, t>> : t \in {0, n}}

Menu(n) ==
  {[E0 EXCEPT !.op = o] : o \in {"pop", "clear", "dedup", "dedup_by", "shrink_to_fit", "drop_vec", "into_bump_slice"}}
  \cup {[E0 EXCEPT !.op = "push", !.vals = <<x>>] : x \in {2, 3}}
  \cup {[E0 EXCEPT !.op = o, !.a = i, !.vals = <<4>>] : o \in {"insert", "remove", "swap_remove", "truncate", "resize", "index"}, i \in {0, 1, n, n + 1, -1}}
  \cup {[E0 EXCEPT !.op = "split_off", !.a = i] : i \in {0, 1, n, n + 1}}
  \cup {[E0 EXCEPT !.op = o, !.vals = <<2, 2>>] : o \in {"extend", "from_iter"}}
  \cup {[E0 EXCEPT !.op = o] : o \in {"append", "clone"}}
  \cup {[E0 EXCEPT !.op = "drain", !.rg = r, !.a = f, !.b = k, !.flag = fl] : r \in Ranges(n), f \in {0, 1}, k \in {0, 1}, fl \in {0, 1}}
  \cup {[E0 EXCEPT !.op = "splice", !.rg = r, !.a = f, !.vals = vs] : r \in Ranges(n), f \in {0, 1}, vs \in {<<>>, <<5, 6>>}}
  \cup {[E0 EXCEPT !.op = o, !.a = m] : o \in {"retain", "dedup_by_key"}, m \in {1, 2}}
  \cup {[E0 EXCEPT !.op = "drain_filter", !.a = 2, !.b = k] : k \in {-1, 0, 1}}
  \cup {[E0 EXCEPT !.op = "into_iter", !.a = f, !.b = k] : f \in {0, 1}, k \in {0, 1}}
  \cup {[E0 EXCEPT !.op = "into_boxed_slice", !.a = 0]}
  \cup {[E0 EXCEPT !.op = o, !.a = 0, !.vals = <<7>>] : o \in {"box_new", "box_drop", "box_into_inner", "box_leak", "box_raw_roundtrip", "box_downcast", "box_read"}}
  \* the same calls on the other vector
  \cup {[E0 EXCEPT !.op = o, !.v = 1, !.w = 0] : o \in {"pop", "append", "clone", "drop_vec"}}

AllIds(VV) == UNION {IdsOf(VV[i]) : i \in 1..Len(VV)}
Count(VV) == LET S[i \in 0..Len(VV)] == IF i = 0 THEN 0 ELSE S[i - 1] + (IF VV[i] = NoVec THEN 0 ELSE Len(VV[i])) IN S[Len(VV)]

\* give the elements a call created (<<-1, val>>) fresh identities, left to right
RECURSIVE NameSeq(_, _, _)
NameSeq(s, n, acc) ==
  IF s = <<>> THEN [s |-> acc, n |-> n]
  ELSE IF s[1][1] = -1 THEN NameSeq(Tail(s), n + 1, Append(acc, <<n, s[1][2]>>))
  ELSE NameSeq(Tail(s), n, Append(acc, s[1]))
RECURSIVE NameAll(_, _, _)
NameAll(VV, n, acc) ==
  IF VV = <<>> THEN [V |-> acc, n |-> n]
  ELSE IF VV[1] = NoVec THEN NameAll(Tail(VV), n, Append(acc, NoVec))
  ELSE LET r == NameSeq(VV[1], n, <<>>) IN NameAll(Tail(VV), r.n, Append(acc, r.s))

Init == /\ V = <<<<>>, <<>>>> /\ B = <<NoVec>> /\ nid = 0
        /\ last = [e |-> E0, x |-> Res(<<>>, <<>>), V0 |-> <<>>, B0 |-> <<>>, created |-> 0]
        /\ err = {}

\* ---- the laws -------------------------------------------------------------------
NoAlias == Cardinality(AllIds(V) \cup AllIds(B)) = Count(V) + Count(B)

RetIds(x) == {x.ret[i][1] : i \in 1..Len(x.ret)} \ {-1}
ConservationL(L) ==
  LET x == L.x
      before == AllIds(L.V0) \cup AllIds(L.B0)
      kept == (AllIds(x.V) \cup AllIds(x.B)) \ {-1}
      \* ret of the "informational" calls repeats what stays in a container
      info == L.e.op \in {"into_bump_slice", "into_boxed_slice", "box_leak", "box_raw_roundtrip", "box_read", "box_downcast",
                              "box_from_iter", "box_array"}
      handed == IF info THEN {} ELSE RetIds(x)
  IN /\ before = kept \cup handed \cup x.drops \cup x.leaks
     /\ kept \cap handed = {} /\ kept \cap x.drops = {} /\ handed \cap x.drops = {}
     /\ (x.leaks \cap x.drops) = {} /\ (info \/ x.leaks \cap kept = {})

PanicIsAtomicL(L) ==
  LET x == L.x
      v == L.e.v
  IN x.panics => (v + 1 <= Len(L.V0) => x.V[v + 1] = L.V0[v + 1]) /\ x.B = L.B0 /\ x.ret = <<>>

LenOf(VV, v) == IF v + 1 <= Len(VV) /\ VV[v + 1] # NoVec THEN Len(VV[v + 1]) ELSE -1
LengthLawsL(L) ==
  LET e == L.e
      x == L.x
      n0 == LenOf(L.V0, e.v)
      n1 == LenOf(x.V, e.v)
  IN (n0 >= 0 /\ ~x.panics) =>
       /\ (e.op = "push" => n1 = n0 + 1)
       /\ (e.op = "pop" => n1 = (IF n0 = 0 THEN 0 ELSE n0 - 1) /\ Len(x.ret) = (IF n0 = 0 THEN 0 ELSE 1))
       /\ (e.op \in {"remove", "swap_remove"} => n1 = n0 - 1 /\ Len(x.ret) = 1)
       /\ (e.op = "insert" => n1 = n0 + 1)
       /\ (e.op = "truncate" => n1 = (IF U(e.a) < n0 THEN e.a ELSE n0))
       /\ (e.op = "resize" => n1 = e.a)
       /\ (e.op = "split_off" => n1 = e.a /\ LenOf(x.V, e.w) = n0 - e.a)
       /\ (e.op = "append" /\ LenOf(L.V0, e.w) >= 0 => n1 = n0 + LenOf(L.V0, e.w) /\ LenOf(x.V, e.w) = 0)
       /\ (e.op = "clone" => LenOf(x.V, e.w) = n0 /\ n1 = n0)
       /\ (e.op = "drain" /\ e.flag = 0 => n1 = n0 - (REnd(e.rg, n0) - RStart(e.rg)))
       /\ (e.op = "splice" => n1 = n0 - (REnd(e.rg, n0) - RStart(e.rg)) + Len(e.vals))
       /\ (e.op \in {"retain", "dedup", "dedup_by", "dedup_by_key", "drain_filter"} => n1 <= n0 /\ n1 + Cardinality(x.drops) + Len(x.ret) = n0)
       /\ (e.op \in {"clear"} => n1 = 0 /\ Cardinality(x.drops) = n0)
       /\ (e.op \in {"into_iter", "drop_vec", "into_bump_slice", "into_boxed_slice"} => n1 = -1)

Law(n, L) == CASE n = "Conservation" -> ConservationL(L) [] n = "PanicIsAtomic" -> PanicIsAtomicL(L) [] OTHER -> LengthLawsL(L)
NoLawBroken == err = {}

Apply(e) ==
  LET x == Sem(e, V, B)
      r1 == NameAll(x.V, nid, <<>>)
      r2 == NameAll(x.B, r1.n, <<>>)
      \* elements created and handed straight back (box_from_iter's ret) are not tracked further
  IN /\ V' = r1.V /\ B' = r2.V /\ nid' = r2.n
     /\ last' = [e |-> e, x |-> x, V0 |-> V, B0 |-> B, created |-> r2.n - nid]
     /\ err' = {n \in {"Conservation", "PanicIsAtomic", "LengthLaws"} : ~Law(n, [e |-> e, x |-> x, V0 |-> V, B0 |-> B])}

Next == /\ nid < MaxId
        /\ \E e \in Menu(IF V[1] = NoVec THEN 0 ELSE Len(V[1])) : Apply(e)
Spec == Init /\ [][Next]_mvars

Small == /\ \A i \in 1..Len(V) : V[i] = NoVec \/ Len(V[i]) <= MaxLen
         /\ \A i \in 1..Len(B) : B[i] = NoVec \/ Len(B[i]) <= MaxLen

=============================================================================
