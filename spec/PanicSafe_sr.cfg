SPECIFICATION Spec
CHECK_DEADLOCK FALSE
CONSTANTS
  N = 4
  Machine = "str_retain"
  Variant = "code"
INVARIANTS
  NoDuplicate
  NothingDropped
  NothingMovedOut
  NoDoubleDrop
  NoLeakWithoutPanic
  ValidUtf8
