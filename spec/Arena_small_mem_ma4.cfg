SPECIFICATION Spec
CHECK_DEADLOCK FALSE
CONSTANTS
  CHUNK_ALIGN = 4
  FOOTER = 4
  MALLOC_OVERHEAD = 4
  FIRST_GOAL = 32
  PAGE = 64
  MinAligns = {4}
  Sizes = {0, 1, 3, 8, 25}
  Aligns = {1, 4, 8}
  Caps = {25}
  Limits = {}
  SentAddrs = {16}
  MaxSlots = 2
  SLOT = 1024
  MaxLive = 2
  MaxRefuse = 1
  GrowIncs = {1, 30}
  ShrinkDecs = {1, 20}
  ClosSizes = {2}
INVARIANTS
  NoObligationFailed
  InBounds
  Disjoint
  AlignedBlocks
  FingerInv
  LiveAboveFinger
  HeapIsChunks
  ChunksDistinct
  Accounting
  SentinelUntouched
  CapacityWithinChunk
