---------------------------- MODULE FastPathInd ----------------------------
(***************************************************************************)
(* Inductive invariant for the bump-pointer arithmetic of ONE chunk over   *)
(* UNBOUNDED integers (Apalache): every bump-pointer position, every       *)
(* request size, every alignment 1..4096, every MIN_ALIGN 1..16.           *)
(* It lifts the C01/C04 core -- the block handed out lies inside the       *)
(* chunk, above the new finger, below the old one, aligned as requested    *)
(* and to MIN_ALIGN, and the finger stays MIN_ALIGN-aligned -- from "small *)
(* constants" (TLC) to all integers, for the MODEL; the code is tied to    *)
(* the model by ArenaTrace.tla.  Transitions: fast-path allocation,        *)
(* dealloc / in-place shrink / in-place grow of the last block, reset.     *)
(*   apalache-mc check --init=IndInit --inv=IndInv --length=1 ...          *)
(***************************************************************************)
EXTENDS Integers

CONSTANT
  \* @type: Int;
  AlignC   \* the request alignment of this run (one Apalache run per value: keeps each SMT problem small)

VARIABLES
  \* @type: Int;
  ma,      \* MIN_ALIGN
  \* @type: Int;
  data,    \* chunk start
  \* @type: Int;
  footer,  \* footer address (end of the usable region)
  \* @type: Int;
  finger,  \* bump pointer
  \* @type: Bool;
  has,     \* is there a "last block" (the most recent allocation, still at the finger)
  \* @type: Int;
  bAddr,
  \* @type: Int;
  bSize,
  \* @type: Int;
  bAlign,
  \* @type: Int;
  bHi      \* the finger before that allocation: the block owns [bAddr, bHi)

Aligns == {1, 2, 4, 8, 16, 32, 64, 128, 256, 512, 1024, 2048, 4096}
MinAligns == {1, 2, 4, 8, 16}

\* x mod a for a in Aligns, written so that every modulus is a literal (keeps the SMT problem linear)
Mod(x, a) ==
  IF a = 1 THEN 0 ELSE IF a = 2 THEN x % 2 ELSE IF a = 4 THEN x % 4 ELSE IF a = 8 THEN x % 8
  ELSE IF a = 16 THEN x % 16 ELSE IF a = 32 THEN x % 32 ELSE IF a = 64 THEN x % 64
  ELSE IF a = 128 THEN x % 128 ELSE IF a = 256 THEN x % 256 ELSE IF a = 512 THEN x % 512
  ELSE IF a = 1024 THEN x % 1024 ELSE IF a = 2048 THEN x % 2048 ELSE x % 4096
RoundDown(n, a) == n - Mod(n, a)
RoundUp(n, a) == RoundDown(n + a - 1, a)
Max2(a, b) == IF a >= b THEN a ELSE b

\* try_alloc_layout_fast (src/lib.rs): -1 if it does not fit
FastAddr(size, align) ==
  LET asz   == IF align < ma THEN RoundUp(size, ma) ELSE RoundUp(size, align)
      basep == IF align > ma THEN RoundDown(finger, align) ELSE finger
  IN IF basep >= data /\ asz <= basep - data THEN basep - asz ELSE -1

IndInv ==
  /\ ma \in MinAligns
  /\ data >= 16 /\ data <= finger /\ finger <= footer
  /\ Mod(data, 16) = 0 /\ Mod(footer, 16) = 0
  /\ Mod(finger, ma) = 0
  /\ has =>
       /\ bAlign \in Aligns /\ bSize >= 0
       /\ bAddr = finger
       /\ Mod(bAddr, bAlign) = 0 /\ Mod(bAddr, ma) = 0
       /\ bAddr + bSize <= bHi /\ bHi <= footer /\ Mod(bHi, ma) = 0

IndInit ==
  /\ ma \in MinAligns
  /\ data \in Int /\ footer \in Int /\ finger \in Int
  /\ has \in BOOLEAN
  /\ bAddr \in Int /\ bSize \in Int /\ bAlign \in Aligns /\ bHi \in Int
  /\ IndInv

Alloc ==
  \E size \in Int : \E align \in {AlignC} :
    /\ size >= 0
    /\ LET p == FastAddr(size, align) IN
       /\ p # -1
       /\ finger' = p /\ has' = TRUE /\ bAddr' = p /\ bSize' = size /\ bAlign' = align /\ bHi' = finger
    /\ UNCHANGED <<ma, data, footer>>

\* dealloc of the last block (src/lib.rs dealloc): the finger goes up past it
DeallocLast ==
  /\ has
  /\ finger' = RoundUp(bAddr + bSize, ma)
  /\ has' = FALSE
  /\ UNCHANGED <<ma, data, footer, bAddr, bSize, bAlign, bHi>>

\* in-place shrink of the last block (not to a stricter alignment)
ShrinkLast ==
  \E nsz \in Int : \E nal \in Aligns :
    /\ has /\ nsz >= 0 /\ nsz <= bSize /\ nal <= bAlign
    /\ LET delta == RoundDown(bSize - nsz, Max2(nal, ma)) IN
       /\ 2 * delta >= bSize + 1 - Mod(bSize + 1, 2)          \* delta >= (old_size + 1) / 2
       /\ finger' = finger + delta /\ bAddr' = finger + delta /\ bSize' = nsz /\ bAlign' = nal
    /\ UNCHANGED <<ma, data, footer, has, bHi>>

\* in-place grow of the last block
GrowLast ==
  \E nsz \in Int : \E nal \in Aligns :
    /\ has /\ nsz >= bSize /\ nal <= bAlign /\ bAlign = AlignC
    /\ LET delta == RoundUp(nsz, ma) - bSize
           asz   == IF bAlign < ma THEN RoundUp(delta, ma) ELSE RoundUp(delta, bAlign)
           basep == IF bAlign > ma THEN RoundDown(finger, bAlign) ELSE finger
       IN /\ delta >= 0 /\ basep >= data /\ asz <= basep - data
          /\ finger' = basep - asz /\ bAddr' = basep - asz /\ bSize' = nsz /\ bAlign' = nal
    /\ UNCHANGED <<ma, data, footer, has, bHi>>

Reset ==
  /\ finger' = footer /\ has' = FALSE
  /\ UNCHANGED <<ma, data, footer, bAddr, bSize, bAlign, bHi>>

Next == Alloc \/ DeallocLast \/ ShrinkLast \/ GrowLast \/ Reset

\* what a fresh chunk looks like (new_chunk): the base case
Init ==
  /\ ma \in MinAligns
  /\ data \in Int /\ footer \in Int /\ data >= 16 /\ footer >= data
  /\ Mod(data, 16) = 0 /\ Mod(footer, 16) = 0
  /\ finger = footer
  /\ has = FALSE /\ bAddr = 0 /\ bSize = 0 /\ bAlign = 1 /\ bHi = 0

CI1 == AlignC = 1
CI2 == AlignC = 2
CI4 == AlignC = 4
CI8 == AlignC = 8
CI16 == AlignC = 16
CI32 == AlignC = 32
CI64 == AlignC = 64
CI128 == AlignC = 128
CI256 == AlignC = 256
CI512 == AlignC = 512
CI1024 == AlignC = 1024
CI2048 == AlignC = 2048
CI4096 == AlignC = 4096

\* the copy of the in-place shrink must not overlap (copy_nonoverlapping): checked as an action property
=============================================================================
