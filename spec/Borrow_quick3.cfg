SPECIFICATION Spec
CHECK_DEADLOCK FALSE
CONSTANTS
  MaxLen = 3
  MaxTok = 1
  Kinds = {"VecMacro", "FormatMacro", "CollectIn", "AllocWith", "TryAllocOk", "AllocTryWith", "SliceFillIter", "ApiVec", "ApiBox", "Slice", "Str", "VecIntoIter", "DrainFilter", "StrDrain", "BumpSliceMut", "IntoInnerRef"}
INVARIANTS
  EmitInv
  OrdinaryAccepted
  MisuseRejected
