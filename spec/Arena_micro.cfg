SPECIFICATION Spec
VIEW View
CHECK_DEADLOCK FALSE
CONSTANTS
  CHUNK_ALIGN = 4
  FOOTER = 4
  MALLOC_OVERHEAD = 4
  FIRST_GOAL = 32
  PAGE = 64
  SentAddrs = {16}
  SLOT = 1024
  MinAligns = {1, 2, 4}
  Sizes = {0, 1, 3, 8, 24, 25}
  Aligns = {1, 2, 8}
  Caps = {1, 25}
  Limits = {}
  MaxSlots = 1
  MaxLive = 2
  MaxRefuse = 0
  GrowIncs = {1, 9}
  ShrinkDecs = {1, 6}
  ClosSizes = {}
  TrackLive = TRUE
  EnableTryFill = FALSE
INVARIANTS
  NoObligationFailed
  InBounds
  Disjoint
  AlignedBlocks
  FingerInv
  LiveAboveFinger
  HeapIsChunks
  ChunksDistinct
  Accounting
  SentinelUntouched
  CapacityWithinChunk
