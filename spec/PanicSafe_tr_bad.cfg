SPECIFICATION Spec
CHECK_DEADLOCK FALSE
CONSTANTS
  N = 4
  Machine = "truncate"
  Variant = "drop_then_set_len"
INVARIANTS
  NoDuplicate
  NothingDropped
  NothingMovedOut
  NoDoubleDrop
  NoLeakWithoutPanic
  ValidUtf8
