------------------------------ MODULE ArenaGen ------------------------------
(***************************************************************************)
(* Spec -> code: behaviours of Arena.tla, at the REAL constants of the     *)
(* crate, exported for replay on the real code.  A history variable (kept  *)
(* out of the VIEW, so that it does not multiply states) records the       *)
(* operations that led to each state; an invariant prints it, one          *)
(* behaviour per distinct abstract state (breadth-first: a shortest one).  *)
(* The harness executes each behaviour on the crate (plus a fixed probe    *)
(* suffix) and the resulting trace is validated by ArenaMonitor and by     *)
(* ArenaTrace, i.e. compared step by step with this very model.            *)
(* Live blocks are referred to by their rank in address order, which is    *)
(* the same in the model and in the real run (both allocators hand out     *)
(* ascending addresses).                                                   *)
(***************************************************************************)
EXTENDS Arena

CONSTANT MaxDepth
VARIABLE hist
gvars == <<ar, sent, heap, live, nslot, err, hist>>

Before(o, b) == o.addr < b.addr \/ (o.addr = b.addr /\ (o.size < b.size \/ (o.size = b.size /\ o.align < b.align)))
Rank(b) == Cardinality({o \in live : Before(o, b)})
\* which of the two placements the allocator model chose for a granted block (0: strongly aligned, 1: minimal)
Placed(ans) == IF ans = <<>> \/ ans[Len(ans)] = 0 THEN 0
               ELSE IF (ans[Len(ans)] % SLOT) = 0 THEN 0 ELSE 1
Rec(t) == hist' = Append(hist, t)

GNext ==
  /\ Len(hist) < MaxDepth
  /\ \/ \E ma \in MinAligns : Create(ma) /\ Rec(<<"New", ma, -1, 0>>)
     \/ \E ma \in MinAligns, cap \in Caps : CreateWithCapacity(ma, cap) /\ Rec(<<"New", ma, cap, 0>>)
     \/ \E s \in Sizes, al \in Aligns : \E ans \in AnswerSeqs(ChunkAlign(al)) :
          AllocOp(s, al, ans) /\ Rec(<<"Layout", s, al, Placed(ans)>>)
     \/ \E b \in live : DeallocOp(b) /\ Rec(<<"Dealloc", Rank(b), 0, 0>>)
     \/ \E b \in live, inc \in GrowIncs, al \in Aligns : \E ans \in AnswerSeqs(ChunkAlign(al)) :
          GrowOp(b, inc, al, ans) /\ Rec(<<"Grow", Rank(b), inc, al, Placed(ans)>>)
     \/ \E b \in live, dec \in ShrinkDecs, al \in Aligns : \E ans \in AnswerSeqs(ChunkAlign(al)) :
          ShrinkOp(b, dec, al, ans) /\ Rec(<<"Shrink", Rank(b), dec, al, Placed(ans)>>)
     \/ ResetOp /\ Rec(<<"Reset", 0, 0, 0>>)
     \/ \E lim \in Limits \cup {NoLimit} : SetLimit(lim) /\ Rec(<<"Limit", lim, 0, 0>>)

GInit == Init /\ hist = <<>>
GSpec == GInit /\ [][GNext]_gvars
GView == View
Emit == (Len(hist) = 0) \/ PrintT(<<"BEH", hist>>)
=============================================================================
