------------------------------ MODULE ArenaGen ------------------------------
(***************************************************************************)
(* Spec -> code: behaviours of Arena.tla, at the REAL constants of the     *)
(* crate, exported for replay on the real code.  A history variable (kept  *)
(* out of the VIEW, so that it does not multiply states) records the       *)
(* operations that led to each state; an invariant prints it, one          *)
(* behaviour per distinct pair (abstract state, branch of the model taken  *)
(* by the last operation) -- breadth-first, hence a shortest one.  The     *)
(* branch tag (fast / slow path, in-place / fallback / lucky / reclaim,    *)
(* last / not last) is part of the VIEW: a state that two different        *)
(* branches lead to is exported once per branch, so that every branch of   *)
(* ArenaCore's case analysis is replayed into every state it can produce,  *)
(* not only along the first path breadth-first search happens to find.     *)
(* The harness executes each behaviour on the crate (plus a fixed probe    *)
(* suffix) and the resulting trace is validated by ArenaMonitor and by     *)
(* ArenaTrace, i.e. compared step by step with this very model.            *)
(* Live blocks are referred to by their rank in address order, which is    *)
(* the same in the model and in the real run (both allocators hand out     *)
(* ascending addresses).                                                   *)
(***************************************************************************)
EXTENDS Arena

CONSTANTS MaxDepth,
          TwSlots     \* layouts <<size, align>> of the Result<T, E> slots offered to (try_)alloc_try_with
\* (a .cfg file cannot hold tuples: the configs substitute one of these)
TwNone == {}
TwReal == {<<2, 1>>, <<16, 8>>, <<2008, 8>>}      \* Result<u8, ()>, Result<u64, u64>, Result<u64, [u8; 2000]>

VARIABLES hist, tag
gvars == <<ar, sent, heap, live, nslot, err, hist, tag>>

\* which branch of ArenaCore's definitions an operation takes in the current state
AllocBranch(s, al) == IF FastAddr(ar.ma, CurData(ar, sent), CurFinger(ar, sent), s, al) # NoAddr THEN "fast" ELSE "slow"
DeallocBranch(b) == IF IsLast(ar, sent, b.addr) THEN "last" ELSE "buried"
GrowBranch(b, inc, al) ==
  IF b.align >= al /\ IsLast(ar, sent, b.addr)
     /\ FastAddr(ar.ma, CurData(ar, sent), CurFinger(ar, sent), RoundUp(b.size + inc, ar.ma) - b.size, b.align) # NoAddr
  THEN "inplace" ELSE "fallback"
ShrinkBranch(b, dec, al) ==
  IF b.align < al THEN (IF b.addr % al = 0 THEN "lucky" ELSE "realloc")
  ELSE IF IsLast(ar, sent, b.addr) /\ RoundDown(dec, Max(al, ar.ma)) >= (b.size + 1) \div 2 THEN "reclaim"
  ELSE "keep"

Before(o, b) == o.addr < b.addr \/ (o.addr = b.addr /\ (o.size < b.size \/ (o.size = b.size /\ o.align < b.align)))
Rank(b) == Cardinality({o \in live : Before(o, b)})
\* which of the two placements the allocator model chose for a granted block (0: strongly aligned, 1: minimal)
Placed(ans) == IF ans = <<>> \/ ans[Len(ans)] = 0 THEN 0
               ELSE IF (ans[Len(ans)] % SLOT) = 0 THEN 0 ELSE 1
Rec(t) == hist' = Append(hist, t)
Tag(t) == tag' = t

GNext ==
  /\ Len(hist) < MaxDepth
  /\ \/ \E ma \in MinAligns : Create(ma) /\ Rec(<<"New", ma, -1, 0>>) /\ Tag("new")
     \/ \E ma \in MinAligns, cap \in Caps : CreateWithCapacity(ma, cap) /\ Rec(<<"New", ma, cap, 0>>) /\ Tag("new")
     \/ \E s \in Sizes, al \in Aligns : \E ans \in AnswerSeqs(ChunkAlign(al)) :
          AllocOp(s, al, ans) /\ Rec(<<"Layout", s, al, Placed(ans)>>) /\ Tag(<<"alloc", AllocBranch(s, al)>>)
     \/ \E b \in live : DeallocOp(b) /\ Rec(<<"Dealloc", Rank(b), 0, 0>>) /\ Tag(<<"dealloc", DeallocBranch(b)>>)
     \/ \E b \in live, inc \in GrowIncs, al \in Aligns : \E ans \in AnswerSeqs(ChunkAlign(al)) :
          GrowOp(b, inc, al, ans) /\ Rec(<<"Grow", Rank(b), inc, al, Placed(ans)>>) /\ Tag(<<"grow", GrowBranch(b, inc, al)>>)
     \/ \E b \in live, dec \in ShrinkDecs, al \in Aligns : \E ans \in AnswerSeqs(ChunkAlign(al)) :
          ShrinkOp(b, dec, al, ans) /\ Rec(<<"Shrink", Rank(b), dec, al, Placed(ans)>>) /\ Tag(<<"shrink", ShrinkBranch(b, dec, al)>>)
     \/ \E sl \in TwSlots, okf \in BOOLEAN, ck \in {0, 1, 2}, cn \in ClosSizes : \E ans \in AnswerSeqs(ChunkAlign(sl[2])) :
          /\ (ck = 0 => cn = CHOOSE x \in ClosSizes : TRUE)          \* the size is irrelevant when nothing is allocated
          /\ TryWithOp(sl[1], sl[2], okf, ck, cn, ans)
          /\ Rec(<<"TryWith", sl[1], sl[2], IF okf THEN 1 ELSE 0, ck, cn, Placed(ans)>>)
          /\ Tag(<<"trywith", okf, ck, AllocBranch(sl[1], sl[2]), Len(ar'.ch) - Len(ar.ch)>>)
     \/ ResetOp /\ Rec(<<"Reset", 0, 0, 0>>) /\ Tag("reset")
     \/ \E lim \in Limits \cup {NoLimit} : SetLimit(lim) /\ Rec(<<"Limit", lim, 0, 0>>) /\ Tag("limit")

GInit == Init /\ hist = <<>> /\ tag = "init"
GSpec == GInit /\ [][GNext]_gvars
GView == <<View, tag>>
Emit == (Len(hist) = 0) \/ PrintT(<<"BEH", hist>>)
=============================================================================
