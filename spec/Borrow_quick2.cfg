SPECIFICATION Spec
CHECK_DEADLOCK FALSE
CONSTANTS
  MaxLen = 3
  MaxTok = 1
  Kinds = {"BoxSliceFromArray", "BoxArrayTryFrom", "BoxTryFromErr", "PinBox", "PinFromBox", "BumpRef", "StringIntoBytes", "StringFromUtf8", "FromUtf8Err", "ChunkItem"}
INVARIANTS
  EmitInv
  OrdinaryAccepted
  MisuseRejected
