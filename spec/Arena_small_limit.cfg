SPECIFICATION Spec
VIEW View
CHECK_DEADLOCK FALSE
CONSTANTS
  CHUNK_ALIGN = 4
  FOOTER = 4
  MALLOC_OVERHEAD = 4
  FIRST_GOAL = 32
  PAGE = 64
  SentAddrs = {16}
  SLOT = 1024
  MinAligns = {1, 4}
  Sizes = {0, 1, 24, 25, 60}
  Aligns = {1, 8}
  Caps = {1, 25}
  Limits = {0, 8, 24, 30, 80}
  MaxSlots = 3
  MaxLive = 0
  MaxRefuse = 1
  GrowIncs = {}
  ShrinkDecs = {}
  ClosSizes = {}
  TrackLive = FALSE
  EnableTryFill = FALSE
INVARIANTS
  NoObligationFailed
  InBounds
  Disjoint
  AlignedBlocks
  FingerInv
  LiveAboveFinger
  HeapIsChunks
  ChunksDistinct
  Accounting
  SentinelUntouched
  CapacityWithinChunk
