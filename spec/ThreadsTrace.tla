---------------------------- MODULE ThreadsTrace ----------------------------
(***************************************************************************)
(* Race detection on crate-level shared state from the synchronisation log *)
(* of multi-threaded executions (C20).                                     *)
(*                                                                         *)
(* The log holds, per program: spawn / join edges (std::thread::scope) and *)
(* every arena call with the stores it made into chunk footers (hook       *)
(* __verif::footer_store).  Happens-before is tracked with vector clocks   *)
(* (one component per thread); a store to a location races with the        *)
(* previous store to it if that one is not ordered before it.  The only    *)
(* location two arenas can have in common is the static empty chunk.       *)
(***************************************************************************)
EXTENDS Integers, Sequences, FiniteSets, TLC, Json, IOUtils

Rec == ndJsonDeserialize(IOEnv.TRACE)
MaxT == 16
Thr == 0..MaxT

VARIABLES l, vc, lastw
tvars == <<l, vc, lastw>>

Zero == [t \in Thr |-> 0]
Join(a, b) == [t \in Thr |-> IF a[t] >= b[t] THEN a[t] ELSE b[t]]

Chk(prop, name, cond, wit) ==
  IF cond THEN TRUE ELSE PrintT(<<"PROPFAIL", prop, name, l, <<Rec[l].p, Rec[l].i, Rec[l].op, Rec[l].th>>, wit>>)

\* apply the stores of one call by thread t (clock c) to the last-writer map
RECURSIVE Writes(_, _, _, _, _)
Writes(lw, stores, k, t, c) ==
  IF k > Len(stores) THEN lw
  ELSE LET loc == stores[k][1] IN
       Writes([x \in DOMAIN lw \cup {loc} |-> IF x = loc THEN <<t, c>> ELSE lw[x]], stores, k + 1, t, c)

Racy(lw, stores, t, clock) ==
  {k \in 1..Len(stores) :
      LET loc == stores[k][1] IN
      loc \in DOMAIN lw /\ lw[loc][1] # t /\ clock[lw[loc][1]] < lw[loc][2]}

Step ==
  /\ l <= Len(Rec)
  /\ LET e == Rec[l] IN
     CASE e.k = "begin" ->
            /\ vc' = [t \in Thr |-> [Zero EXCEPT ![t] = 1]]
            /\ lastw' = <<>>
       [] e.k = "spawn" ->
            \* child starts after everything the parent did so far
            /\ vc' = [vc EXCEPT ![e.c] = Join(vc[e.c], vc[e.th]), ![e.th] = [vc[e.th] EXCEPT ![e.th] = @ + 1]]
            /\ lastw' = lastw
       [] e.k = "join" ->
            /\ vc' = [vc EXCEPT ![e.th] = Join(vc[e.th], vc[e.c]), ![e.c] = [vc[e.c] EXCEPT ![e.c] = @ + 1]]
            /\ lastw' = lastw
       [] OTHER ->
            LET t == e.th
                clock == vc[t]
                racy == Racy(lastw, e.stores, t, clock)
            IN /\ Chk("C20", "NoDataRaceOnCrateState", racy = {},
                      <<{e.stores[k] : k \in racy}, {lastw[e.stores[k][1]] : k \in racy}>>)
               /\ lastw' = Writes(lastw, e.stores, 1, t, clock[t])
               /\ vc' = vc
  /\ l' = l + 1

Init == l = 1 /\ vc = [t \in Thr |-> Zero] /\ lastw = <<>>
Spec == Init /\ [][Step]_tvars

Accepted ==
  IF TLCGet("stats").diameter - 1 = Len(Rec) THEN PrintT(<<"ACCEPTED", Len(Rec)>>)
  ELSE PrintT(<<"REJECTED at", TLCGet("stats").diameter, Len(Rec)>>) /\ FALSE
=============================================================================
