Logging is disabled (Z3SolverContext.debug = false). Activate with --debug.
