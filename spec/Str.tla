--------------------------------- MODULE Str ---------------------------------
(***************************************************************************)
(* Reference semantics of String (what std documents): a string is a       *)
(* sequence of chars (code points); byte indices are prefix sums of the    *)
(* UTF-8 widths.  Every operation: result, new text and the panic          *)
(* condition (non-boundary or out-of-range index, every range form).       *)
(* Plus transcriptions of the decoders: UTF-8 validation / lossy decoding  *)
(* by the "maximal subpart" rule (Unicode 3.9, Table 3-7) and UTF-16.      *)
(***************************************************************************)
EXTENDS Integers, Sequences, FiniteSets, TLC

BIG == 1000000000
U(x) == IF x < 0 THEN BIG ELSE x

Width(c) == IF c < 128 THEN 1 ELSE IF c < 2048 THEN 2 ELSE IF c < 65536 THEN 3 ELSE 4
RECURSIVE ByteLen(_)
ByteLen(s) == IF s = <<>> THEN 0 ELSE Width(s[1]) + ByteLen(Tail(s))
\* byte offset of the k-th char boundary (k = 0..Len(s))
RECURSIVE Off(_, _)
Off(s, k) == IF k = 0 THEN 0 ELSE Off(s, k - 1) + Width(s[k])
Boundaries(s) == {Off(s, k) : k \in 0..Len(s)}
IsBoundary(s, i) == i \in Boundaries(s)
\* number of chars before byte offset i (i must be a boundary)
CharsBefore(s, i) == CHOOSE k \in 0..Len(s) : Off(s, k) = i

Sub(s, lo, hi) == IF lo > hi THEN <<>> ELSE SubSeq(s, lo, hi)
Take(s, n) == Sub(s, 1, IF n < Len(s) THEN n ELSE Len(s))

RStart(rg) == CASE rg[1] = 0 -> 0 [] rg[1] = 1 -> U(rg[2]) [] OTHER -> U(rg[2]) + 1
REnd(rg, len) == CASE rg[3] = 0 -> len [] rg[3] = 1 -> U(rg[4]) + 1 [] OTHER -> U(rg[4])
ROverflow(rg) == (rg[1] = 2 /\ rg[2] < 0) \/ (rg[3] = 1 /\ rg[4] < 0)
\* slicing s[start..end]: in range, ordered, both on char boundaries
SlicePanics(s, rg) ==
  LET len == ByteLen(s) IN
  \/ ROverflow(rg) \/ RStart(rg) > REnd(rg, len) \/ REnd(rg, len) > len
  \/ ~IsBoundary(s, RStart(rg)) \/ ~IsBoundary(s, REnd(rg, len))

Upper(c) == IF c >= 97 /\ c <= 122 THEN c - 32 ELSE c
MinI(a, b) == IF a < b THEN a ELSE b

R(text) == [panics |-> FALSE, text |-> text, ret |-> <<>>, other |-> <<>>, hasOther |-> FALSE, gone |-> FALSE]
P(text) == [R(text) EXCEPT !.panics = TRUE]

\* e: event-shaped record (op, a, b, flag, rg, s); t: text before
Sem(e, t) ==
  LET len == ByteLen(t) IN
  CASE e.op \in {"new"} -> R(<<>>)
    [] e.op \in {"from_str", "from_iter", "from_utf8_unchecked"} -> R(e.s)
    [] e.op \in {"push", "push_str", "extend", "write_fmt", "extend_strs", "add", "add_assign", "as_mut_vec_push"} -> R(t \o e.s)
    \* make_ascii_uppercase through a mutable view (as_mut_str, DerefMut, BorrowMut: the whole text;
    \* IndexMut<range>: the slice, with slicing's panic conditions)
    [] e.op = "ascii_upper" ->
         IF e.a # 3 THEN R([i \in 1..Len(t) |-> Upper(t[i])])
         ELSE IF SlicePanics(t, e.rg) THEN P(t)
         ELSE LET ks == CharsBefore(t, RStart(e.rg))
                  ke == CharsBefore(t, REnd(e.rg, len))
              IN R([i \in 1..Len(t) |-> IF i > ks /\ i <= ke THEN Upper(t[i]) ELSE t[i]])
    [] e.op = "pop" -> IF t = <<>> THEN R(t) ELSE [R(Sub(t, 1, Len(t) - 1)) EXCEPT !.ret = <<t[Len(t)]>>]
    [] e.op \in {"insert", "insert_str"} ->
         IF ~IsBoundary(t, U(e.a)) THEN P(t)
         ELSE LET k == CharsBefore(t, e.a) IN R(Sub(t, 1, k) \o e.s \o Sub(t, k + 1, Len(t)))
    [] e.op = "remove" ->
         IF U(e.a) >= len \/ ~IsBoundary(t, U(e.a)) THEN P(t)
         ELSE LET k == CharsBefore(t, e.a) IN
              [R(Sub(t, 1, k) \o Sub(t, k + 2, Len(t))) EXCEPT !.ret = <<t[k + 1]>>]
    [] e.op = "truncate" ->
         IF U(e.a) >= len THEN R(t)
         ELSE IF ~IsBoundary(t, e.a) THEN P(t)
         ELSE R(Sub(t, 1, CharsBefore(t, e.a)))
    [] e.op = "clear" -> R(<<>>)
    [] e.op = "retain" -> R(SelectSeq(t, LAMBDA c: c % e.a # 0))
    [] e.op = "drain" ->
         IF SlicePanics(t, e.rg) THEN P(t)
         ELSE LET ks == CharsBefore(t, RStart(e.rg))
                  ke == CharsBefore(t, REnd(e.rg, len))
                  removed == Sub(t, ks + 1, ke)
                  \* the iterator is double-ended: e.a chars from the front, then e.b from the back
                  front == Take(removed, e.a)
                  rest == Sub(removed, Len(front) + 1, Len(removed))
                  nb == IF e.b < 0 THEN 0 ELSE MinI(e.b, Len(rest))
                  got == front \o [i \in 1..nb |-> rest[Len(rest) + 1 - i]]
              IN IF e.flag = 1
                 THEN \* a leaked Drain removes nothing
                      [R(t) EXCEPT !.ret = got]
                 ELSE [R(Sub(t, 1, ks) \o Sub(t, ke + 1, Len(t))) EXCEPT !.ret = got]
    [] e.op = "replace_range" ->
         IF SlicePanics(t, e.rg) THEN P(t)
         ELSE LET ks == CharsBefore(t, RStart(e.rg))
                  ke == CharsBefore(t, REnd(e.rg, len))
              IN R(Sub(t, 1, ks) \o e.s \o Sub(t, ke + 1, Len(t)))
    [] e.op = "split_off" ->
         IF ~IsBoundary(t, U(e.a)) THEN P(t)
         ELSE LET k == CharsBefore(t, e.a) IN
              [R(Sub(t, 1, k)) EXCEPT !.other = Sub(t, k + 1, Len(t)), !.hasOther = TRUE]
    [] e.op = "clone" -> [R(t) EXCEPT !.other = t, !.hasOther = TRUE]
    [] e.op = "slice" ->
         IF SlicePanics(t, e.rg) THEN P(t)
         ELSE [R(t) EXCEPT !.other = Sub(t, CharsBefore(t, RStart(e.rg)) + 1, CharsBefore(t, REnd(e.rg, len))),
                           !.hasOther = TRUE]
    [] e.op = "into_bump_str" -> [R(t) EXCEPT !.other = t, !.hasOther = TRUE, !.gone = TRUE]
    [] e.op \in {"reserve", "reserve_exact"} -> IF e.a < 0 THEN P(t) ELSE R(t)
    [] OTHER -> R(t)

(***************************************************************************)
(* UTF-8, Table 3-7 of the Unicode standard.                               *)
(***************************************************************************)
InR(b, lo, hi) == b >= lo /\ b <= hi
\* number of bytes the lead byte announces (0 = not a lead byte)
Need(b0) == IF b0 < 128 THEN 1 ELSE IF InR(b0, 194, 223) THEN 2 ELSE IF InR(b0, 224, 239) THEN 3
            ELSE IF InR(b0, 240, 244) THEN 4 ELSE 0
\* permitted range of the second byte
Lo2(b0) == IF b0 = 224 THEN 160 ELSE IF b0 = 240 THEN 144 ELSE 128
Hi2(b0) == IF b0 = 237 THEN 159 ELSE IF b0 = 244 THEN 143 ELSE 191

\* decoding step at position i of bytes b: [len |-> bytes consumed, ok |-> well formed, cp |-> code point,
\*                                           trunc |-> ill-formed only because the input ended]
StepAt(b, i) ==
  LET n == Len(b)
      b0 == b[i]
      need == Need(b0)
      Has(k) == i + k <= n
      C(k) == b[i + k]
  IN IF need = 1 THEN [len |-> 1, ok |-> TRUE, cp |-> b0, trunc |-> FALSE]
     ELSE IF need = 0 THEN [len |-> 1, ok |-> FALSE, cp |-> 65533, trunc |-> FALSE]
     ELSE IF ~Has(1) THEN [len |-> 1, ok |-> FALSE, cp |-> 65533, trunc |-> TRUE]
     ELSE IF ~InR(C(1), Lo2(b0), Hi2(b0)) THEN [len |-> 1, ok |-> FALSE, cp |-> 65533, trunc |-> FALSE]
     ELSE IF need = 2 THEN [len |-> 2, ok |-> TRUE, cp |-> (b0 - 192) * 64 + (C(1) - 128), trunc |-> FALSE]
     ELSE IF ~Has(2) THEN [len |-> 2, ok |-> FALSE, cp |-> 65533, trunc |-> TRUE]
     ELSE IF ~InR(C(2), 128, 191) THEN [len |-> 2, ok |-> FALSE, cp |-> 65533, trunc |-> FALSE]
     ELSE IF need = 3 THEN [len |-> 3, ok |-> TRUE, cp |-> (b0 - 224) * 4096 + (C(1) - 128) * 64 + (C(2) - 128), trunc |-> FALSE]
     ELSE IF ~Has(3) THEN [len |-> 3, ok |-> FALSE, cp |-> 65533, trunc |-> TRUE]
     ELSE IF ~InR(C(3), 128, 191) THEN [len |-> 3, ok |-> FALSE, cp |-> 65533, trunc |-> FALSE]
     ELSE [len |-> 4, ok |-> TRUE,
           cp |-> (b0 - 240) * 262144 + (C(1) - 128) * 4096 + (C(2) - 128) * 64 + (C(3) - 128), trunc |-> FALSE]

\* lossy decoding: every maximal ill-formed subpart becomes U+FFFD
RECURSIVE Lossy(_, _, _)
Lossy(b, i, acc) ==
  IF i > Len(b) THEN acc
  ELSE LET s == StepAt(b, i) IN Lossy(b, i + s.len, Append(acc, s.cp))

\* strict validation: [ok, text] or [ok = FALSE, upto = valid_up_to, elen = error_len (-1 = unexpected end)]
RECURSIVE Strict(_, _, _)
Strict(b, i, acc) ==
  IF i > Len(b) THEN [ok |-> TRUE, text |-> acc, upto |-> Len(b), elen |-> 0]
  ELSE LET s == StepAt(b, i) IN
       IF s.ok THEN Strict(b, i + s.len, Append(acc, s.cp))
       ELSE [ok |-> FALSE, text |-> acc, upto |-> i - 1, elen |-> IF s.trunc THEN -1 ELSE s.len]

(***************************************************************************)
(* UTF-16: a high surrogate must be followed by a low surrogate; a lone    *)
(* surrogate is an error.                                                  *)
(***************************************************************************)
IsHigh(u) == InR(u, 55296, 56319)
IsLow(u) == InR(u, 56320, 57343)
RECURSIVE Utf16(_, _, _)
Utf16(u, i, acc) ==
  IF i > Len(u) THEN [ok |-> TRUE, text |-> acc]
  ELSE IF IsHigh(u[i])
       THEN IF i + 1 <= Len(u) /\ IsLow(u[i + 1])
            THEN Utf16(u, i + 2, Append(acc, 65536 + (u[i] - 55296) * 1024 + (u[i + 1] - 56320)))
            ELSE [ok |-> FALSE, text |-> acc]
       ELSE IF IsLow(u[i]) THEN [ok |-> FALSE, text |-> acc]
       ELSE Utf16(u, i + 1, Append(acc, u[i]))

\* UTF-8 encoding of a text (for ValidUtf8 of the raw bytes)
Enc(c) == IF c < 128 THEN <<c>>
          ELSE IF c < 2048 THEN <<192 + (c \div 64), 128 + (c % 64)>>
          ELSE IF c < 65536 THEN <<224 + (c \div 4096), 128 + ((c \div 64) % 64), 128 + (c % 64)>>
          ELSE <<240 + (c \div 262144), 128 + ((c \div 4096) % 64), 128 + ((c \div 64) % 64), 128 + (c % 64)>>
RECURSIVE EncAll(_)
EncAll(t) == IF t = <<>> THEN <<>> ELSE Enc(t[1]) \o EncAll(Tail(t))
=============================================================================
