SPECIFICATION Spec
CHECK_DEADLOCK FALSE
CONSTANTS
  MaxLen = 3
  MaxTok = 2
  Kinds = {"Ref", "Vec", "String", "Box", "ChunkIter", "RawIter", "Splice", "Drain"}
INVARIANTS
  EmitInv
  OrdinaryAccepted
  MisuseRejected
