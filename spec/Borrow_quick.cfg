SPECIFICATION Spec
CHECK_DEADLOCK FALSE
CONSTANTS
  MaxLen = 3
  MaxTok = 2
  Kinds = {"Ref", "Vec", "Box", "ChunkIter", "Splice", "LeakRef"}
INVARIANTS
  EmitInv
  OrdinaryAccepted
  MisuseRejected
