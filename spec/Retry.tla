------------------------------- MODULE Retry -------------------------------
(***************************************************************************)
(* alloc_layout_slow's retry loop (src/lib.rs 2050-2090) as a stepwise     *)
(* state machine, so that TLC can check the part of C09 that is a liveness *)
(* property: the call always comes back, whatever the global allocator     *)
(* answers (grant / refuse, chosen anew at every request).                 *)
(*   Terminates == <>(pc = "done")   under weak fairness of the loop step  *)
(* No state constraint bounds the loop: a constraint could hide a          *)
(* non-progress cycle.  Before fix 4fe586d the candidate size 0 was        *)
(* offered forever (Halve(0) = 0) for zero-sized requests under a small    *)
(* limit; `OfferZeroOnce = FALSE` reproduces that code and TLC reports the *)
(* lasso.                                                                  *)
(***************************************************************************)
EXTENDS ArenaCore

CONSTANTS MinAligns, Sizes, Aligns, Limits, ChunkWos, OfferZeroOnce

VARIABLES a, size, align, rem, bs, pc, granted, nref
rvars == <<a, size, align, rem, bs, pc, granted, nref>>
\* nref: how many more requests the global allocator refuses; -1 = it refuses every request, for ever
\* (the adversary is fixed in the initial state: fairness must not be able to force a grant)

Arena0(ma, lim, wo) ==
  [ma |-> ma, lim |-> lim,
   ch |-> IF wo = 0 THEN <<>>
          ELSE <<[base |-> 1024, size |-> wo + FOOTER, align |-> CHUNK_ALIGN, wo |-> wo, finger |-> 1024, ab |-> wo]>>]

RInit ==
  /\ \E ma \in MinAligns, lim \in Limits \cup {NoLimit}, wo \in ChunkWos : a = Arena0(ma, lim, wo)
  /\ size \in Sizes /\ align \in Aligns
  /\ rem = LimitRemaining(a)
  /\ bs = BaseSize0(a, size)
  /\ pc = "loop" /\ granted = FALSE
  /\ nref \in {-1, 0, 1, 2, 3}

NextBs(b) == IF OfferZeroOnce THEN Halve(b) ELSE (IF b < 0 THEN b ELSE b \div 2)

\* one iteration of the from_fn closure + filter_map body
LoopStep ==
  /\ pc = "loop"
  /\ IF ~Yields(a, size, bs)
     THEN pc' = "done" /\ UNCHANGED <<bs, granted, nref>>
     ELSE LET det == Details(a.ma, bs, size, align) IN
          IF ~FitsLimit(rem, det)
          THEN bs' = NextBs(bs) /\ UNCHANGED <<pc, granted, nref>>
          ELSE IF nref = 0
               THEN pc' = "done" /\ granted' = TRUE /\ UNCHANGED <<bs, nref>>            \* the global allocator grants
               ELSE /\ bs' = NextBs(bs) /\ UNCHANGED <<pc, granted>>                    \* ... or refuses
                    /\ nref' = IF nref > 0 THEN nref - 1 ELSE nref
  /\ UNCHANGED <<a, size, align, rem>>


RNext == LoopStep \/ (pc = "done" /\ UNCHANGED rvars)
RSpec == RInit /\ [][RNext]_rvars /\ WF_rvars(LoopStep)

Terminates == <>(pc = "done")
\* candidates never grow, and a granted chunk always fits the request and the limit
CandidatesShrink == [][bs' <= bs]_rvars
GrantFits == granted => LET det == Details(a.ma, bs, size, align) IN det.wo >= size /\ FitsLimit(rem, det)
=============================================================================
