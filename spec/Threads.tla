------------------------------ MODULE Threads ------------------------------
(***************************************************************************)
(* Several threads, each driving its own arena(s); the only crate-level    *)
(* state two arenas have in common is the static empty chunk every         *)
(* chunk-less arena points at (src/lib.rs EMPTY_CHUNK).  Threads           *)
(* interleave at the granularity of memory accesses to chunk footers;      *)
(* synchronisation edges are only Spawn (implicit: all threads start after *)
(* Init) and HandOver of an idle arena.  Happens-before is tracked with    *)
(* vector clocks; NoRace says no two accesses to one location, at least    *)
(* one of them a write, are unordered (C20); Frame says an operation       *)
(* leaves every other arena untouched.                                     *)
(*                                                                         *)
(* SkipRedundantStore models ChunkFooter::set_ptr: TRUE = the bump pointer *)
(* is only stored when it changes (the repaired code), FALSE = the code    *)
(* before fix ea7c31f, kept so that TLC can show the race it had.          *)
(***************************************************************************)
EXTENDS Integers, Sequences, FiniteSets, TLC

CONSTANTS Thr, Arenas, MaxOps, MaxHandOvers, SkipRedundantStore

SENT == "sentinel"
VARIABLES
  owner,      \* arena -> thread that may use it
  chunked,    \* arena -> has its own chunk (else it points at the sentinel)
  cap,        \* arena -> remaining capacity class of the current chunk (0..2)
  pc,         \* thread -> pending micro-steps of the call in progress
  nops,       \* thread -> calls made
  vc,         \* thread -> vector clock
  lastw,      \* location -> <<thread, clock>> of last write (or <<>>)
  reads,      \* location -> [thread -> clock of last read]
  race,       \* a racy pair has been seen
  touched,    \* ghost: arenas whose state changed during the call in progress of each thread
  nho         \* hand-overs so far (bounds the model)
vars == <<owner, chunked, cap, pc, nops, vc, lastw, reads, race, touched, nho>>

Locs == {SENT} \cup Arenas
LocOf(a) == IF chunked[a] THEN a ELSE SENT
Zero == [t \in Thr |-> 0]

\* ---- memory accesses with race detection -----------------------------------
ReadRace(t, loc) == lastw[loc] # <<>> /\ lastw[loc][1] # t /\ vc[t][lastw[loc][1]] < lastw[loc][2]
WriteRace(t, loc) == ReadRace(t, loc) \/ \E u \in Thr : u # t /\ reads[loc][u] > vc[t][u]

DoRead(t, loc) ==
  /\ race' = (race \/ ReadRace(t, loc))
  /\ reads' = [reads EXCEPT ![loc][t] = vc[t][t]]
  /\ UNCHANGED lastw
DoWrite(t, loc) ==
  /\ race' = (race \/ WriteRace(t, loc))
  /\ lastw' = [lastw EXCEPT ![loc] = <<t, vc[t][t]>>]
  /\ UNCHANGED reads

\* ---- calls, as sequences of micro-steps <<kind, arena>> ------------------------
\* zero-sized allocation: reads the current footer, "moves" the bump pointer by zero
AllocZst(a) == <<<<"read", a>>>> \o (IF SkipRedundantStore THEN <<>> ELSE <<<<"write", a>>>>)
\* sized allocation: fast path if there is room, else slow path takes a new chunk
AllocSized(a) == IF chunked[a] /\ cap[a] > 0 THEN <<<<"read", a>>, <<"write", a>>, <<"use", a>>>>
                 ELSE <<<<"read", a>>, <<"newchunk", a>>, <<"write", a>>>>
ResetCall(a) == IF chunked[a] THEN <<<<"read", a>>, <<"write", a>>, <<"refill", a>>>> ELSE <<<<"read", a>>>>
DropCall(a) == <<<<"read", a>>, <<"unchunk", a>>>>

Begin(t) ==
  /\ pc[t] = <<>> /\ nops[t] < MaxOps
  /\ \E a \in Arenas : owner[a] = t /\
       \E call \in {AllocZst(a), AllocSized(a), ResetCall(a), DropCall(a)} :
          pc' = [pc EXCEPT ![t] = call]
  /\ nops' = [nops EXCEPT ![t] = @ + 1]
  /\ touched' = [touched EXCEPT ![t] = {}]
  /\ UNCHANGED <<owner, chunked, cap, vc, lastw, reads, race, nho>>

MicroStep(t) ==
  /\ pc[t] # <<>>
  /\ LET st == Head(pc[t])
         a == st[2]
     IN /\ pc' = [pc EXCEPT ![t] = Tail(@)]
        /\ CASE st[1] = "read" -> DoRead(t, LocOf(a)) /\ UNCHANGED <<chunked, cap, touched>>
             [] st[1] = "write" -> DoWrite(t, LocOf(a)) /\ UNCHANGED <<chunked, cap>> /\ touched' = [touched EXCEPT ![t] = @ \cup {a}]
             [] st[1] = "newchunk" -> /\ chunked' = [chunked EXCEPT ![a] = TRUE] /\ cap' = [cap EXCEPT ![a] = 2]
                                      /\ touched' = [touched EXCEPT ![t] = @ \cup {a}]
                                      /\ UNCHANGED <<lastw, reads, race>>
             [] st[1] = "use" -> /\ cap' = [cap EXCEPT ![a] = @ - 1] /\ touched' = [touched EXCEPT ![t] = @ \cup {a}]
                                 /\ UNCHANGED <<chunked, lastw, reads, race>>
             [] st[1] = "refill" -> /\ cap' = [cap EXCEPT ![a] = 2] /\ touched' = [touched EXCEPT ![t] = @ \cup {a}]
                                    /\ UNCHANGED <<chunked, lastw, reads, race>>
             [] OTHER -> /\ chunked' = [chunked EXCEPT ![a] = FALSE] /\ cap' = [cap EXCEPT ![a] = 0]
                         /\ touched' = [touched EXCEPT ![t] = @ \cup {a}]
                         /\ UNCHANGED <<lastw, reads, race>>
  /\ UNCHANGED <<owner, nops, vc, nho>>

\* moving an idle arena to another thread through a channel: a synchronisation edge
HandOver(a, t, u) ==
  /\ owner[a] = t /\ t # u /\ pc[t] = <<>> /\ pc[u] = <<>> /\ nho < MaxHandOvers
  /\ nho' = nho + 1
  /\ owner' = [owner EXCEPT ![a] = u]
  /\ vc' = [vc EXCEPT ![u] = [x \in Thr |-> IF vc[u][x] >= vc[t][x] THEN vc[u][x] ELSE vc[t][x]],
                      ![t] = [vc[t] EXCEPT ![t] = @ + 1]]
  /\ UNCHANGED <<chunked, cap, pc, nops, lastw, reads, race, touched>>

Next == \/ \E t \in Thr : Begin(t) \/ MicroStep(t)
        \/ \E a \in Arenas, t, u \in Thr : HandOver(a, t, u)

Init ==
  /\ owner \in [Arenas -> Thr]
  /\ chunked = [a \in Arenas |-> FALSE] /\ cap = [a \in Arenas |-> 0]
  /\ pc = [t \in Thr |-> <<>>] /\ nops = [t \in Thr |-> 0]
  /\ vc = [t \in Thr |-> [Zero EXCEPT ![t] = 1]]
  /\ lastw = [x \in Locs |-> <<>>] /\ reads = [x \in Locs |-> Zero]
  /\ race = FALSE /\ touched = [t \in Thr |-> {}] /\ nho = 0

Spec == Init /\ [][Next]_vars

NoRace == ~race
\* a call changes only the arena it was made on, and only its owner makes calls on it
Frame == \A t \in Thr : pc[t] # <<>> => \A a \in touched[t] : owner[a] = t
SentinelNeverWritten == lastw[SENT] = <<>>
=============================================================================
