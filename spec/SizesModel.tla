----------------------------- MODULE SizesModel -----------------------------
(***************************************************************************)
(* C19 (A): the size arithmetic of the code, transcribed operation by      *)
(* operation (checked_add / checked_mul / unchecked +, as written) over a  *)
(* W-bit word, checked by TLC for *all* inputs of that word size: a        *)
(* request is granted only if it is representable, and whatever is granted *)
(* covers what was asked for (nothing wrapped).                            *)
(*   raw_vec.rs: allocate_in (89-92), amortized_new_size (352-365),        *)
(*               reserve_internal (652-695)                                *)
(*   lib.rs:     round_up_to (419-426), fast path Less branch (1916-1927), *)
(*               Layout::array as used by the slice fill methods           *)
(*   vec.rs:     extend_from_slices_copy total (1886-1893)                 *)
(***************************************************************************)
EXTENDS Integers, Sequences, FiniteSets, TLC

CONSTANTS W            \* word size: usize::MAX = W - 1, isize::MAX = W \div 2 - 1
UMAXw == W - 1
IMAXw == (W \div 2) - 1
Word == 0..UMAXw
None == -1

CheckedAdd(a, b) == IF a + b > UMAXw THEN None ELSE a + b
CheckedMul(a, b) == IF a * b > UMAXw THEN None ELSE a * b
Wrap(x) == x % W
MaxI(a, b) == IF a >= b THEN a ELSE b

\* lib.rs round_up_to: n.checked_add(divisor - 1) & !(divisor - 1)
RoundUpTo(n, d) == LET x == CheckedAdd(n, d - 1) IN IF x = None THEN None ELSE x - (x % d)
\* core::alloc::Layout::from_size_align: size rounded up to align must not exceed isize::MAX
LayoutOk(size, align) == size + ((align - (size % align)) % align) <= IMAXw
\* core::alloc::Layout::array::<T>(n)
LayoutArray(es, al, n) == IF es * n > UMAXw \/ ~LayoutOk(es * n, al) THEN None ELSE es * n

\* raw_vec.rs allocate_in: cap.checked_mul(elem_size), then Layout::from_size_align(..).unwrap()
AllocateIn(es, al, cap) ==
  LET sz == CheckedMul(cap, es) IN
  IF sz = None THEN None ELSE IF sz = 0 THEN 0 ELSE IF LayoutOk(sz, al) THEN sz ELSE None

\* raw_vec.rs amortized_new_size: required = used.checked_add(extra)?; double = cap * 2; max(double, required)
AmortizedNewSize(cap, used, extra) ==
  LET req == CheckedAdd(used, extra) IN
  IF req = None THEN None ELSE MaxI(Wrap(cap * 2), req)
\* `cap * 2` is written unchecked: "cannot overflow, because cap <= isize::MAX and usize::MAX = 2 isize::MAX + 1" --
\* true for sized T; for zero-sized T cap = usize::MAX but reserve returns before reaching this line

\* reserve_internal for a sized element type: new capacity or None
Reserve(es, al, cap, used, extra, exact) ==
  LET nc == IF exact THEN CheckedAdd(used, extra) ELSE AmortizedNewSize(cap, used, extra) IN
  IF nc = None THEN None
  ELSE IF LayoutArray(es, al, nc) = None THEN None ELSE nc

Aligns == {1, 2, 4, 8}
ElemSizes == {1, 2, 3, 8}

\* ---- the obligations, for all inputs ------------------------------------------
RoundUpNeverWraps ==
  \A n \in Word, d \in Aligns :
     LET r == RoundUpTo(n, d) IN
     IF n + d - 1 - ((n + d - 1) % d) > UMAXw THEN r = None ELSE r = n + d - 1 - ((n + d - 1) % d)

SliceLayoutRefusedIffTooBig ==
  \A es \in ElemSizes, n \in Word :
     LET al == IF es = 3 THEN 1 ELSE es IN
     (LayoutArray(es, al, n) = None) = (es * n > IMAXw - ((al - ((es * n) % al)) % al))

WithCapacityNeverUnderAllocates ==
  \A es \in ElemSizes, cap \in Word :
     LET al == IF es = 3 THEN 1 ELSE es
         r == AllocateIn(es, al, cap)
     IN /\ (es * cap > IMAXw => r = None)
        /\ (r # None => r = es * cap)

ReserveGivesWhatItPromises ==
  \A es \in ElemSizes, used \in Word, extra \in Word, exact \in BOOLEAN :
     \* a vector's capacity is at least its length and at most isize::MAX bytes
     \A cap \in {c \in {used, used + 1, 2 * used} : c <= UMAXw /\ c * es <= IMAXw} :
        LET al == IF es = 3 THEN 1 ELSE es
            r == Reserve(es, al, cap, used, extra, exact)
        IN /\ ((used + extra) * es > IMAXw => r = None)
           /\ (r # None => r >= used + extra /\ r * es <= IMAXw)

\* fast path, align < MIN_ALIGN branch: aligned_size = round_up_to(size, MIN_ALIGN)?; if aligned_size > capacity fail
FastPathNeverGoesBelowStart ==
  \A size \in Word, ma \in Aligns, capacity \in {0, 1, 7, 8, 64, UMAXw - 8, UMAXw} :
     LET asz == RoundUpTo(size, ma) IN
     (asz # None /\ asz <= capacity) => size <= capacity

\* extend_from_slices_copy: the total of the slice lengths (after fix 372e674: checked)
TotalChecked(l1, l2) == CheckedAdd(l1, l2)
SlicesTotalNeverWraps == \A l1, l2 \in {0, 1, 5, UMAXw \div 2 + 1, UMAXw - 1, UMAXw} :
     (l1 + l2 > UMAXw) = (TotalChecked(l1, l2) = None)

VARIABLE dummy
Init == dummy = 0
Next == UNCHANGED dummy
Spec == Init /\ [][Next]_dummy
=============================================================================
