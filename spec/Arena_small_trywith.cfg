SPECIFICATION Spec
VIEW View
CHECK_DEADLOCK FALSE
CONSTANTS
  CHUNK_ALIGN = 4
  FOOTER = 4
  MALLOC_OVERHEAD = 4
  FIRST_GOAL = 32
  PAGE = 64
  SentAddrs = {16}
  SLOT = 1024
  MinAligns = {1, 4}
  Sizes = {0, 3, 24, 25}
  Aligns = {1, 8}
  Caps = {25}
  Limits = {}
  MaxSlots = 2
  MaxLive = 3
  MaxRefuse = 0
  GrowIncs = {}
  ShrinkDecs = {}
  ClosSizes = {2, 30}
  TrackLive = TRUE
  EnableTryFill = TRUE
INVARIANTS
  NoObligationFailed
  InBounds
  Disjoint
  AlignedBlocks
  FingerInv
  LiveAboveFinger
  HeapIsChunks
  ChunksDistinct
  Accounting
  SentinelUntouched
  CapacityWithinChunk
