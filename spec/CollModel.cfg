SPECIFICATION Spec
CHECK_DEADLOCK FALSE
CONSTANTS
  MaxLen = 3
  MaxId = 4
CONSTRAINT Small
VIEW View
INVARIANTS
  NoAlias
  NoLawBroken
