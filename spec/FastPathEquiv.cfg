SPECIFICATION Spec
CHECK_DEADLOCK FALSE
INVARIANTS
  SameFastAddr
  SameRounding
