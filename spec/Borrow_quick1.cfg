SPECIFICATION Spec
CHECK_DEADLOCK FALSE
CONSTANTS
  MaxLen = 3
  MaxTok = 1
  Kinds = {"String", "BumpSlice", "BumpStr", "BoxedSlice", "RawIter", "Drain"}
INVARIANTS
  EmitInv
  OrdinaryAccepted
  MisuseRejected
