----------------------------- MODULE ArenaTrace -----------------------------
(***************************************************************************)
(* Implementation-level ("strict") trace specification (code -> spec).     *)
(*                                                                         *)
(* Every recorded API call must be explained by the corresponding          *)
(* definition of ArenaCore: the finger must land exactly where the spec's  *)
(* arithmetic puts it, the global allocator must be asked for exactly the  *)
(* candidate sizes the spec's retry loop produces, reset/drop must free    *)
(* exactly the chunks the spec says, in that order.  The spec is           *)
(* deterministic given the logged answers of the global allocator, so      *)
(* validation is linear in the length of the trace.                        *)
(*                                                                         *)
(* A trace accepted here without DRIFT lines is a behaviour of the model,  *)
(* so everything TLC established about Arena.tla holds for it.  A DRIFT    *)
(* line means the code no longer follows the model at that step; it is not *)
(* a property violation (ArenaMonitor decides those).  After reporting,    *)
(* the state is re-synchronised from the logged observables so that the    *)
(* rest of the trace is still checked.                                     *)
(***************************************************************************)
EXTENDS ArenaCore, Json, IOUtils

Rec == ndJsonDeserialize(IOEnv.TRACE)

VARIABLES l, a, sent, held, rws
tvars == <<l, a, sent, held, rws>>

FUEL == 80

AllocOps == {"alloc", "try_alloc", "alloc_with", "try_alloc_with", "alloc_layout", "try_alloc_layout",
             "alloc_slice_copy", "try_alloc_slice_copy", "alloc_slice_clone", "try_alloc_slice_clone",
             "alloc_str", "try_alloc_str",
             "alloc_slice_fill_with", "try_alloc_slice_fill_with", "alloc_slice_fill_copy",
             "try_alloc_slice_fill_copy", "alloc_slice_fill_clone", "try_alloc_slice_fill_clone",
             "alloc_slice_fill_iter", "try_alloc_slice_fill_iter", "alloc_slice_fill_default",
             "try_alloc_slice_fill_default", "allocate", "allocate_zeroed"}
TryWithOps == {"alloc_try_with", "try_alloc_try_with"}
TryFillOps == {"alloc_slice_try_fill_with", "alloc_slice_try_fill_iter"}
CtorOps == {"new", "with_capacity", "try_with_capacity"}

\* ---- what the log says the global allocator did ---------------------------
GaAllocs(ga) == SelectSeq(ga, LAMBDA g: g[1] = 1)
GaFrees(ga)  == SelectSeq(ga, LAMBDA g: g[1] = 2)
Answers(ga)  == [k \in 1..Len(GaAllocs(ga)) |-> IF GaAllocs(ga)[k][5] = 1 THEN GaAllocs(ga)[k][4] ELSE 0]
Requests(ga) == [k \in 1..Len(GaAllocs(ga)) |-> <<GaAllocs(ga)[k][2], GaAllocs(ga)[k][3]>>]
FreeList(ga) == [k \in 1..Len(GaFrees(ga)) |-> <<GaFrees(ga)[k][4], GaFrees(ga)[k][2], GaFrees(ga)[k][3]>>]
ChunkFrees(cs) == [k \in 1..Len(cs) |-> <<cs[k].base, cs[k].size, cs[k].align>>]

\* ---- observable projection of the model state ------------------------------
Snapshot(ar) == [i \in 1..Len(ar.ch) |->
                   LET c == ar.ch[Len(ar.ch) + 1 - i] IN <<c.base, Footer(c), c.finger>>]

Obs(ar, se) == [chunks |-> Snapshot(ar), ab |-> AllocatedBytes(ar), abm |-> AllocatedBytesInclMeta(ar),
                cap |-> Capacity(ar, se), lim |-> ar.lim]
ObsOf(e) == [chunks |-> e.chunks, ab |-> e.ab, abm |-> e.abm, cap |-> e.cap, lim |-> e.lim]

\* ---- re-synchronisation from the log (after drift, and at program start) ---
RECURSIVE Ledger(_, _, _)
Ledger(h, ga, k) ==
  IF k > Len(ga) THEN h
  ELSE LET g == ga[k] IN
       IF g[1] = 1 THEN (IF g[5] = 1 THEN Ledger(Append(h, <<g[4], g[2], g[3]>>), ga, k + 1) ELSE Ledger(h, ga, k + 1))
       ELSE Ledger(SelectSeq(h, LAMBDA b: b[1] # g[4]), ga, k + 1)

Resync(e, h) ==
  LET n == Len(e.chunks)
      AlignOf(base) == LET m == SelectSeq(h, LAMBDA b: b[1] = base) IN IF m = <<>> THEN CHUNK_ALIGN ELSE m[1][3]
  IN [ma |-> e.ma, lim |-> e.lim,
      ch |-> [i \in 1..n |->
                LET c == e.chunks[n + 1 - i] IN
                [base |-> c[1], size |-> c[2] - c[1] + FOOTER, align |-> AlignOf(c[1]), wo |-> c[2] - c[1],
                 finger |-> c[3], ab |-> IF i = n THEN e.ab ELSE 0]]]

Drift(name, cond, wit) ==
  IF cond THEN TRUE
  ELSE PrintT(<<"DRIFT", name, l, <<Rec[l].p, Rec[l].i, Rec[l].op, Rec[l].ma>>, wit>>)

\* ---- the model's prediction for one event -----------------------------------
\* result record: [a, sent, res, addr, reqs, frees, checkaddr]
Nop(ar, se, res) == [a |-> ar, sent |-> se, res |-> res, addr |-> 0, reqs |-> <<>>, frees |-> <<>>, checkaddr |-> FALSE]

PredictCtor(e, se) ==
  LET fresh == [ma |-> e.ma, lim |-> NoLimit, ch |-> <<>>] IN
  IF ~ValidMinAlign(e.ma) THEN [Nop(fresh, se, "panic") EXCEPT !.res = "panic"]
  ELSE IF e.op = "new" \/ e.len = 0 THEN Nop(fresh, se, "ok")
  ELSE LET det == CreateDetails(e.ma, e.len)
           ans == Answers(e.ga)
       IN IF ans # <<>> /\ ans[1] # 0
          THEN [Nop([fresh EXCEPT !.ch = <<NewChunk(fresh, det, ans[1])>>], se, "ok")
                  EXCEPT !.reqs = <<<<det.size, det.align>>>>]
          ELSE [Nop(fresh, se, IF e.fall = 1 THEN "err" ELSE "panic") EXCEPT !.reqs = <<<<det.size, det.align>>>>]

FailRes(e) == IF e.fall = 1 THEN "err" ELSE "panic"

PredictAlloc(e, ar, se) ==
  LET r == Alloc(ar, se, e.size, e.align, Answers(e.ga), FUEL) IN
  [a |-> r.a, sent |-> r.sent, res |-> IF r.ok THEN "ok" ELSE FailRes(e),
   addr |-> IF r.ok THEN r.addr ELSE 0, reqs |-> r.reqs, frees |-> <<>>, checkaddr |-> TRUE]

\* (try_)alloc_try_with: reserve the Result slot, run the initialiser (which may itself
\* allocate / release in the same arena), then either keep or rewind
PredictTryWith(e, ar, se) ==
  LET ans == Answers(e.ga)
      rw  == [n |-> Len(ar.ch), finger |-> CurFinger(ar, se)]
      r1  == Alloc(ar, se, e.size, e.align, ans, FUEL)
  IN IF ~r1.ok
     THEN [a |-> r1.a, sent |-> r1.sent, res |-> FailRes(e), addr |-> 0, reqs |-> r1.reqs, frees |-> <<>>, checkaddr |-> TRUE]
     ELSE LET rest == SubSeq(ans, Len(r1.reqs) + 1, Len(ans))
              r2 == IF e.closk = 0 THEN [ok |-> TRUE, a |-> r1.a, sent |-> r1.sent, reqs |-> <<>>, addr |-> 0]
                    ELSE Alloc(r1.a, r1.sent, IF e.closk = 3 THEN 0 ELSE e.closn, 1, rest, FUEL)
              \* closure kind 2 releases what it allocated
              \* (the initialiser uses the fallible flavour: if its own request fails nothing changes)
              r3 == IF e.closk = 2 /\ r2.ok THEN Dealloc(r2.a, r2.sent, r2.addr, e.closn)
                    ELSE [a |-> r2.a, sent |-> r2.sent]
          IN IF FALSE THEN Nop(ar, se, "ok")
             ELSE IF e.okf = 1
             THEN [a |-> r3.a, sent |-> r3.sent, res |-> "ok", addr |-> r1.addr + e.off, reqs |-> r1.reqs \o r2.reqs,
                   frees |-> <<>>, checkaddr |-> TRUE]
             ELSE LET w == Rewind(r3.a, r3.sent, rw, r1.addr) IN
                  [a |-> w.a, sent |-> w.sent, res |-> "initerr", addr |-> 0, reqs |-> r1.reqs \o r2.reqs,
                   frees |-> <<>>, checkaddr |-> TRUE]

\* alloc_slice_try_fill_with / _iter: reserve the slice, run the initialisers (one of which may itself
\* allocate / release in the same arena: closk / closn as for alloc_try_with), then keep the slice or
\* give it back with an ordinary deallocation -- which reclaims only if the slice is still the latest block
PredictTryFill(e, ar, se) ==
  LET ans == Answers(e.ga)
      r == Alloc(ar, se, e.size, e.align, ans, FUEL) IN
  IF ~r.ok THEN [a |-> r.a, sent |-> r.sent, res |-> "panic", addr |-> 0, reqs |-> r.reqs, frees |-> <<>>, checkaddr |-> TRUE]
  ELSE LET rest == SubSeq(ans, Len(r.reqs) + 1, Len(ans))
           r2 == IF e.closk = 0 THEN [ok |-> TRUE, a |-> r.a, sent |-> r.sent, reqs |-> <<>>, addr |-> 0]
                 ELSE Alloc(r.a, r.sent, IF e.closk = 3 THEN 0 ELSE e.closn, 1, rest, FUEL)
           r3 == IF e.closk = 2 /\ r2.ok THEN Dealloc(r2.a, r2.sent, r2.addr, e.closn)
                 ELSE [a |-> r2.a, sent |-> r2.sent]
       IN IF e.failat < 0
          THEN [a |-> r3.a, sent |-> r3.sent, res |-> "ok", addr |-> r.addr, reqs |-> r.reqs \o r2.reqs, frees |-> <<>>, checkaddr |-> TRUE]
          ELSE LET w == Dealloc(r3.a, r3.sent, r.addr, e.size) IN
               [a |-> w.a, sent |-> w.sent, res |-> "initerr", addr |-> 0, reqs |-> r.reqs \o r2.reqs, frees |-> <<>>, checkaddr |-> TRUE]

PredictDealloc(e, ar, se) ==
  LET w == Dealloc(ar, se, e.ptr, e.len) IN
  [a |-> w.a, sent |-> w.sent, res |-> "ok", addr |-> 0, reqs |-> <<>>, frees |-> <<>>, checkaddr |-> FALSE]

PredictGrow(e, ar, se) ==
  LET r == Grow(ar, se, e.ptr, e.len, e.oalign, e.size, e.align, Answers(e.ga), FUEL) IN
  [a |-> r.a, sent |-> r.sent, res |-> IF r.ok THEN "ok" ELSE "err", addr |-> IF r.ok THEN r.addr ELSE 0,
   reqs |-> r.reqs, frees |-> <<>>, checkaddr |-> TRUE]

PredictShrink(e, ar, se) ==
  LET r == Shrink(ar, se, e.ptr, e.len, e.oalign, e.size, e.align, Answers(e.ga), FUEL) IN
  [a |-> r.a, sent |-> r.sent, res |-> IF r.ok THEN "ok" ELSE "err", addr |-> IF r.ok THEN r.addr ELSE 0,
   reqs |-> r.reqs, frees |-> <<>>, checkaddr |-> TRUE]

PredictReset(e, ar, se) ==
  LET r == Reset(ar) IN
  [a |-> r.a, sent |-> se, res |-> "ok", addr |-> 0, reqs |-> <<>>, frees |-> ChunkFrees(r.freed), checkaddr |-> FALSE]

PredictDrop(e, ar, se) ==
  [a |-> [ar EXCEPT !.ch = <<>>, !.lim = NoLimit], sent |-> se, res |-> "ok", addr |-> 0, reqs |-> <<>>,
   frees |-> ChunkFrees(DropFrees(ar)), checkaddr |-> FALSE]

\* the caller's initialiser panicked (programmed by the driver): the reservation was made, unwinding skips
\* every rewind / release, nothing is handed out
PredictUserPanic(e, ar, se) ==
  LET r == Alloc(ar, se, e.size, e.align, Answers(e.ga), FUEL) IN
  [a |-> r.a, sent |-> r.sent, res |-> "panic", addr |-> 0, reqs |-> r.reqs, frees |-> <<>>, checkaddr |-> FALSE]

Predict(e, ar, se) ==
  CASE e.pp = 1 -> PredictUserPanic(e, ar, se)
    [] e.op \in CtorOps -> PredictCtor(e, se)
    [] e.op \in AllocOps -> PredictAlloc(e, ar, se)
    [] e.op \in TryWithOps -> PredictTryWith(e, ar, se)
    [] e.op \in TryFillOps -> PredictTryFill(e, ar, se)
    [] e.op = "deallocate" -> PredictDealloc(e, ar, se)
    [] e.op \in {"grow", "grow_zeroed"} -> PredictGrow(e, ar, se)
    [] e.op = "shrink" -> PredictShrink(e, ar, se)
    [] e.op = "reset" -> PredictReset(e, ar, se)
    [] e.op = "drop" -> PredictDrop(e, ar, se)
    [] e.op = "set_limit" -> Nop([ar EXCEPT !.lim = e.len], se, "ok")
    \* API-level traces (hooks): the rewind of a failed initialiser's slot is an event of its own; the
    \* state to rewind to is the one recorded when that slot was reserved (rws)
    [] e.op = "rewind" ->
         LET m == SelectSeq(rws, LAMBDA r: r.addr = e.ptr) IN
         IF m = <<>> THEN Nop(ar, se, "ok")
         ELSE LET w == Rewind(ar, se, m[Len(m)], e.ptr) IN
              [a |-> w.a, sent |-> w.sent, res |-> "ok", addr |-> 0, reqs |-> <<>>, frees |-> <<>>, checkaddr |-> FALSE]
    [] OTHER -> Nop(ar, se, "ok")

Step ==
  /\ l <= Len(Rec)
  /\ LET e == Rec[l]
         first == e.i = 0
         se0 == [addr |-> e.sent, finger |-> IF first THEN e.sent ELSE sent.finger]
         ar0 == IF first THEN [ma |-> e.ma, lim |-> NoLimit, ch |-> <<>>] ELSE a
         h0  == IF first THEN <<>> ELSE held
         h1  == Ledger(h0, e.ga, 1)
         \* after a drop the arena is gone: further events (if any) act on nothing
         pr  == Predict(e, ar0, se0)
         same == /\ Obs(pr.a, pr.sent) = ObsOf(e)
                 /\ pr.res = e.res
         \* sizes beyond 2^30 are clamped by the recorders and would overflow TLC's 32-bit integers in the
         \* model's rounding: no prediction for those events (C19's own machinery owns that range)
         huge == e.size >= 1073741824 \/ e.len >= 1073741824
         hung == e.res = "hang" \/ huge
     IN
     /\ Drift("Outcome", hung \/ pr.res = e.res, <<pr.res, e.res>>)
     /\ Drift("ReturnedAddress", hung \/ ~pr.checkaddr \/ pr.res # e.res \/ pr.addr = e.addr, <<pr.addr, e.addr>>)
     /\ Drift("GlobalAllocatorRequests", hung \/ pr.reqs = Requests(e.ga), <<pr.reqs, Requests(e.ga)>>)
     /\ Drift("GlobalAllocatorFrees", hung \/ pr.frees = FreeList(e.ga), <<pr.frees, FreeList(e.ga)>>)
     /\ Drift("ChunkSnapshot", hung \/ Snapshot(pr.a) = e.chunks, <<Snapshot(pr.a), e.chunks>>)
     /\ Drift("Accounting", hung \/ (AllocatedBytes(pr.a) = e.ab /\ AllocatedBytesInclMeta(pr.a) = e.abm),
              <<AllocatedBytes(pr.a), e.ab, AllocatedBytesInclMeta(pr.a), e.abm>>)
     /\ Drift("Capacity", hung \/ Capacity(pr.a, pr.sent) = e.cap, <<Capacity(pr.a, pr.sent), e.cap>>)
     /\ Drift("Limit", hung \/ pr.a.lim = e.lim, <<pr.a.lim, e.lim>>)
     /\ Drift("ChunkIteration", e.op = "iter" => IterChunks(pr.a) = e.it /\ e.it = e.itraw, <<IterChunks(pr.a), e.it>>)
     /\ Drift("SentinelNeverMoves", hung \/ pr.sent.finger = pr.sent.addr, IF hung THEN <<>> ELSE pr.sent)
     /\ a' = IF ~hung /\ same THEN pr.a ELSE Resync(e, h1)
     /\ sent' = [addr |-> e.sent, finger |-> e.sent]
     \* remember where the finger stood before each of the last few reservations (for "rewind" events)
     /\ rws' = LET r0 == IF first THEN <<>> ELSE rws IN
               IF e.op \in AllocOps /\ e.res = "ok"
               THEN LET r1 == Append(r0, [addr |-> e.addr, n |-> Len(ar0.ch), finger |-> CurFinger(ar0, se0)])
                    IN IF Len(r1) > 4 THEN Tail(r1) ELSE r1
               ELSE r0
     /\ held' = h1
     /\ l' = l + 1

Init == /\ l = 1 /\ held = <<>> /\ rws = <<>>
        /\ a = [ma |-> 1, lim |-> NoLimit, ch |-> <<>>]
        /\ sent = [addr |-> 0, finger |-> 0]
Spec == Init /\ [][Step]_tvars

Accepted ==
  IF TLCGet("stats").diameter - 1 = Len(Rec) THEN PrintT(<<"ACCEPTED", Len(Rec)>>)
  ELSE PrintT(<<"REJECTED at", TLCGet("stats").diameter, Len(Rec)>>) /\ FALSE
=============================================================================
