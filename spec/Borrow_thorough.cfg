SPECIFICATION Spec
CHECK_DEADLOCK FALSE
CONSTANTS
  MaxLen = 3
  MaxTok = 2
  Kinds = {"Ref", "Slice", "Str", "Vec", "String", "Box", "VecIntoIter", "ChunkIter", "RawIter", "Splice", "Drain", "DrainFilter", "StrDrain", "LeakRef", "BumpSlice", "BumpSliceMut", "BumpStr", "BoxedSlice", "IntoInnerRef"}
INVARIANTS
  EmitInv
  OrdinaryAccepted
  MisuseRejected
