SPECIFICATION Spec
CHECK_DEADLOCK FALSE
CONSTANTS
  MaxLen = 3
  MaxTok = 2
  Kinds = {"Ref", "Slice", "Str", "Vec", "String", "Box", "VecIntoIter", "ChunkIter", "RawIter", "Splice", "Drain", "DrainFilter", "StrDrain", "LeakRef", "BumpSlice", "BumpSliceMut", "BumpStr", "BoxedSlice", "IntoInnerRef", "BoxSliceFromArray", "BoxArrayTryFrom", "BoxTryFromErr", "PinBox", "PinFromBox", "BumpRef", "StringIntoBytes", "StringFromUtf8", "FromUtf8Err", "ChunkItem", "VecMacro", "FormatMacro", "CollectIn", "AllocWith", "TryAllocOk", "AllocTryWith", "SliceFillIter", "ApiVec", "ApiBox"}
INVARIANTS
  EmitInv
  OrdinaryAccepted
  MisuseRejected
