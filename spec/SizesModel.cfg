SPECIFICATION Spec
CONSTANTS
  W = 256
INVARIANTS
  RoundUpNeverWraps
  SliceLayoutRefusedIffTooBig
  WithCapacityNeverUnderAllocates
  ReserveGivesWhatItPromises
  FastPathNeverGoesBelowStart
  SlicesTotalNeverWraps
