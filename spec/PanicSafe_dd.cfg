SPECIFICATION Spec
CHECK_DEADLOCK FALSE
CONSTANTS
  N = 4
  Machine = "dedup"
  Variant = "code"
INVARIANTS
  NoDuplicate
  NothingDropped
  NothingMovedOut
  NoDoubleDrop
  NoLeakWithoutPanic
  ValidUtf8
