--------------------------------- MODULE Big ---------------------------------
(***************************************************************************)
(* Natural numbers beyond TLC's 32-bit integers: little-endian sequences   *)
(* of base-4096 digits (8 digits = 96 bits, enough for products of a       *)
(* 64-bit count and a small element size).                                 *)
(***************************************************************************)
EXTENDS Integers, Sequences
BASE == 4096
ND == 8
Dig(x, k) == IF k <= Len(x) THEN x[k] ELSE 0
\* comparison, most significant digit first
RECURSIVE CmpFrom(_, _, _)
CmpFrom(a, b, k) == IF k = 0 THEN 0
                    ELSE IF Dig(a, k) < Dig(b, k) THEN -1
                    ELSE IF Dig(a, k) > Dig(b, k) THEN 1
                    ELSE CmpFrom(a, b, k - 1)
Cmp(a, b) == CmpFrom(a, b, ND + 4)
Leq(a, b) == Cmp(a, b) <= 0
Lt(a, b) == Cmp(a, b) < 0
\* addition
RECURSIVE AddFrom(_, _, _, _, _)
AddFrom(a, b, k, carry, acc) ==
  IF k > ND + 2 THEN acc
  ELSE LET s == Dig(a, k) + Dig(b, k) + carry IN AddFrom(a, b, k + 1, s \div BASE, Append(acc, s % BASE))
Add(a, b) == AddFrom(a, b, 1, 0, <<>>)
\* multiplication by a small number m < 2^19 (digit * m + carry stays below 2^31)
RECURSIVE MulSmallFrom(_, _, _, _, _)
MulSmallFrom(a, m, k, carry, acc) ==
  IF k > ND + 3 THEN acc
  ELSE LET s == Dig(a, k) * m + carry IN MulSmallFrom(a, m, k + 1, s \div BASE, Append(acc, s % BASE))
MulSmall(a, m) == MulSmallFrom(a, m, 1, 0, <<>>)
FromInt(n) == <<n % BASE, (n \div BASE) % BASE, n \div (BASE * BASE)>>
\* 2^64 - 1 and 2^63 - 1
UMAX == <<4095, 4095, 4095, 4095, 4095, 15>>
IMAX == <<4095, 4095, 4095, 4095, 4095, 7>>
=============================================================================
