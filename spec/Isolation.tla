----------------------------- MODULE Isolation -----------------------------
(***************************************************************************)
(* C20, frame property on real executions: what an arena does and reports  *)
(* depends only on its own history.  The isolation log holds, for every    *)
(* arena of every multi-arena program, each event of the multi-arena run   *)
(* (interleaved on one thread, or on concurrent threads, possibly with     *)
(* other arenas failing, resetting and being dropped in between)           *)
(* immediately followed by the same event of that arena's SOLO run, both   *)
(* projected to placement-independent observables: result, address         *)
(* relative to its chunk, sizes requested from the global allocator, per   *)
(* chunk usable size and bytes allocated, accounting, capacity, limit.     *)
(* The two projections must be equal -- except once the arena itself has   *)
(* asked for an alignment above the chunk alignment: what happens then     *)
(* depends on the absolute addresses the global allocator returned, which  *)
(* differ between the two runs for reasons that are not another arena.     *)
(***************************************************************************)
EXTENDS Integers, Sequences, TLC, Json, IOUtils

Rec == ndJsonDeserialize(IOEnv.TRACE)
VARIABLE l

Obs(e) == <<e.op, e.res, e.rel, e.reqs, e.chunks, e.ab, e.abm, e.cap, e.lim, e.newrel>>

Chk(prop, name, cond, wit) ==
  IF cond THEN TRUE ELSE PrintT(<<"PROPFAIL", prop, name, l, <<Rec[l].p, Rec[l].i, Rec[l].op, Rec[l].ar>>, wit>>)

Step ==
  /\ l + 1 <= Len(Rec)
  /\ LET x == Rec[l]
         y == Rec[l + 1]
     IN /\ Chk("C20", "PairedEvents", x.p = y.p /\ x.ar = y.ar /\ x.i = y.i /\ x.solo = 0 /\ y.solo = 1, <<x.p, y.p, x.i, y.i>>)
        /\ Chk("C20", "BehaviourIndependentOfOtherArenas", x.addrdep = 1 \/ Obs(x) = Obs(y), <<Obs(x), Obs(y)>>)
  /\ l' = l + 2

Init == l = 1
Spec == Init /\ [][Step]_l
Accepted ==
  IF 2 * (TLCGet("stats").diameter - 1) = Len(Rec) THEN PrintT(<<"ACCEPTED", Len(Rec)>>)
  ELSE PrintT(<<"REJECTED at", TLCGet("stats").diameter, Len(Rec)>>) /\ FALSE
=============================================================================
