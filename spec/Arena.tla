------------------------------- MODULE Arena -------------------------------
(***************************************************************************)
(* The arena as a state machine over ArenaCore's definitions: one action   *)
(* per public operation (the linearisation point of a sequential library   *)
(* is the call's return), the global allocator as an adversary that may    *)
(* refuse any request and may place a granted block at any address the     *)
(* allocator contract permits, plus ghost state                            *)
(*    heap : the blocks the global allocator considers held,               *)
(*    live : the blocks handed out to the caller and still live,           *)
(*    err  : names of per-step obligations that failed (must stay {}).     *)
(* TLC explores every reachable state for small constants (small-scope     *)
(* instantiation keeps every relationship the code relies on) and, with    *)
(* the real constants, bounded-depth BFS / simulation whose behaviours are *)
(* replayed on the crate.                                                  *)
(***************************************************************************)
EXTENDS ArenaCore

CONSTANTS
  MinAligns,   \* minimum alignments to explore
  Sizes,       \* request sizes
  Aligns,      \* request alignments
  Caps,        \* capacities for the constructor
  Limits,      \* allocation limits (NoLimit = -1 is always available)
  SentAddrs,   \* addresses the static empty chunk may have
  MaxSlots,    \* how many blocks the global allocator will ever grant
  SLOT,        \* address distance between two granted blocks
  MaxLive,     \* bound on simultaneously live blocks
  MaxRefuse,   \* up to this many refusals precede a grant
  GrowIncs, ShrinkDecs, ClosSizes,
  TrackLive,   \* FALSE: allocations are not remembered (configs about limits / accounting only)
  EnableTryFill

VARIABLES ar, sent, heap, live, nslot, err
vars == <<ar, sent, heap, live, nslot, err>>

FUEL == 24
None == [ma |-> 0, lim |-> NoLimit, ch |-> <<>>]     \* no arena exists
Alive == ar.ma # 0

Chunks == {ar.ch[i] : i \in 1..Len(ar.ch)}
BlockOf(c) == [base |-> c.base, size |-> c.size, align |-> c.align]

\* ---------------------------------------------------------------- allocator
\* addresses at which the next block may be granted for alignment `al`:
\* aligned to 2*al, or to al only
Bases(al) == IF nslot >= MaxSlots THEN {}
             ELSE {(nslot + 1) * SLOT + j * al : j \in {0, 1}}

\* all answer sequences the allocator may give to one call: k refusals then a
\* grant (for every permitted base), or refusals only
AnswerSeqs(al) ==
  {[i \in 1..k |-> 0] \o <<b>> : k \in 0..MaxRefuse, b \in Bases(al)} \cup {[i \in 1..FUEL |-> 0]}

ChunkAlign(align) == Max(Max(CHUNK_ALIGN, ar.ma), align)

Granted(reqs, answers) == {k \in 1..Len(reqs) : k <= Len(answers) /\ answers[k] # 0}

\* ---------------------------------------------------------------- ghost bookkeeping
HeapAfter(a2) == {BlockOf(a2.ch[i]) : i \in 1..Len(a2.ch)}
Blk(addr, size, align) == [addr |-> addr, size |-> size, align |-> align]

InChunk(b, c) == c.base <= b.addr /\ b.addr + b.size <= Footer(c)
Overlap(b1, b2) == b1.size > 0 /\ b2.size > 0 /\ ~(b1.addr + b1.size <= b2.addr \/ b2.addr + b2.size <= b1.addr)

\* obligations on a freshly returned block b in arena state a2 with other live blocks L
NewBlockErrs(b, a2, L) ==
  (IF b.addr <= 0 THEN {"C01.null"} ELSE {})
  \cup (IF b.size > 0 /\ ~\E i \in 1..Len(a2.ch) : InChunk(b, a2.ch[i]) THEN {"C01.out-of-bounds"} ELSE {})
  \cup (IF \E o \in L : Overlap(b, o) THEN {"C01.overlap"} ELSE {})
  \cup (IF b.addr % b.align # 0 THEN {"C04.requested-align"} ELSE {})
  \cup (IF b.addr % a2.ma # 0 THEN {"C04.min-align"} ELSE {})

UsableHeld(a2) == LET S[i \in 0..Len(a2.ch)] == IF i = 0 THEN 0 ELSE S[i - 1] + a2.ch[i].wo IN S[Len(a2.ch)]
TotalHeld(a2)  == LET S[i \in 0..Len(a2.ch)] == IF i = 0 THEN 0 ELSE S[i - 1] + a2.ch[i].size IN S[Len(a2.ch)]

\* obligations of any call that may take a chunk: r = result record of ArenaCore
AcquireErrs(r, answers, limBefore, fallible) ==
  (IF r.exhausted THEN {"C09.retry-loop-does-not-terminate"} ELSE {})
  \cup (IF Granted(r.reqs, answers) # {} /\ limBefore # NoLimit /\ UsableHeld(r.a) > limBefore
        THEN {"C07.limit-exceeded"} ELSE {})
  \cup (IF ~r.ok /\ Granted(r.reqs, answers) # {} THEN {"C09.slow-path-took-chunk-then-failed"} ELSE {})
  \cup (IF ~r.ok /\ (r.a # ar \/ r.sent # sent) THEN {"C09.failure-changed-state"} ELSE {})

\* a request that fits the reported capacity must succeed without the allocator
FitsErrs(r, size, align) ==
  IF align <= ar.ma /\ RoundUp(size, ar.ma) <= Capacity(ar, sent) /\ (~r.ok \/ r.reqs # <<>>)
  THEN {"C18.capacity-overstated"} ELSE {}

\* ---------------------------------------------------------------- actions
Create(ma) ==
  /\ ~Alive
  /\ ar' = [ma |-> ma, lim |-> NoLimit, ch |-> <<>>]
  /\ err' = err \cup (IF ~ValidMinAlign(ma) THEN {"C04.invalid-min-align-accepted"} ELSE {})
  /\ UNCHANGED <<sent, heap, live, nslot>>

CreateWithCapacity(ma, cap) ==
  /\ ~Alive /\ ValidMinAlign(ma) /\ cap > 0
  /\ LET det == CreateDetails(ma, cap)
         fresh == [ma |-> ma, lim |-> NoLimit, ch |-> <<>>]
     IN \E b \in Bases(det.align) :
          LET a2 == [fresh EXCEPT !.ch = <<NewChunk(fresh, det, b)>>] IN
          /\ ar' = a2
          /\ heap' = heap \cup {BlockOf(a2.ch[1])}
          /\ nslot' = nslot + 1
          /\ err' = err \cup (IF Capacity(a2, sent) < cap THEN {"C18.capacity-not-honoured"} ELSE {})
          /\ UNCHANGED <<sent, live>>

\* any of the plain allocation methods: (try_)alloc_layout and everything built on it
AllocOp(size, align, answers) ==
  /\ Alive /\ (TrackLive => Cardinality(live) < MaxLive)
  /\ answers \in AnswerSeqs(ChunkAlign(align))
  /\ LET r == Alloc(ar, sent, size, align, answers, FUEL)
         b == Blk(r.addr, size, align)
       IN /\ ar' = r.a /\ sent' = r.sent
          /\ heap' = HeapAfter(r.a)
          /\ nslot' = IF Granted(r.reqs, answers) # {} THEN nslot + 1 ELSE nslot
          /\ live' = IF r.ok /\ TrackLive THEN live \cup {b} ELSE live
          /\ err' = err \cup AcquireErrs(r, answers, ar.lim, TRUE) \cup FitsErrs(r, size, align)
                        \cup (IF r.ok THEN NewBlockErrs(b, r.a, live \ {b}) ELSE {})

DeallocOp(b) ==
  /\ Alive /\ b \in live
  /\ LET w == Dealloc(ar, sent, b.addr, b.size) IN
     /\ ar' = w.a /\ sent' = w.sent
     /\ live' = live \ {b}
     /\ UNCHANGED <<heap, nslot, err>>

GrowOp(b, inc, nal, answers) ==
  /\ Alive /\ b \in live
  /\ answers \in AnswerSeqs(ChunkAlign(nal))
  /\ LET r == Grow(ar, sent, b.addr, b.size, b.align, b.size + inc, nal, answers, FUEL)
           nb == Blk(r.addr, b.size + inc, nal)
           mv == IF r.ok /\ r.copy # <<>> THEN r.copy ELSE <<>>
       IN /\ ar' = r.a /\ sent' = r.sent
          /\ heap' = HeapAfter(r.a)
          /\ nslot' = IF Granted(r.reqs, answers) # {} THEN nslot + 1 ELSE nslot
          /\ live' = IF r.ok THEN (live \ {b}) \cup {nb} ELSE live
          /\ err' = err \cup AcquireErrs(r, answers, ar.lim, TRUE)
                        \cup (IF r.ok THEN NewBlockErrs(nb, r.a, live \ {b, nb}) ELSE {})
                        \* the fallback uses copy_nonoverlapping(old, new, old_size)
                        \cup (IF mv # <<>> /\ mv[3] > 0 /\ ~(mv[1] + mv[3] <= mv[2] \/ mv[2] + mv[3] <= mv[1])
                              THEN {"C02.grow-copy-overlaps"} ELSE {})

ShrinkOp(b, dec, nal, answers) ==
  /\ Alive /\ b \in live /\ dec <= b.size
  /\ answers \in AnswerSeqs(ChunkAlign(nal))
  /\ LET r == Shrink(ar, sent, b.addr, b.size, b.align, b.size - dec, nal, answers, FUEL)
           nb == Blk(r.addr, b.size - dec, nal)
           cp == IF r.ok THEN r.copy ELSE <<>>
       IN /\ ar' = r.a /\ sent' = r.sent
          /\ heap' = HeapAfter(r.a)
          /\ nslot' = IF Granted(r.reqs, answers) # {} THEN nslot + 1 ELSE nslot
          /\ live' = IF r.ok THEN (live \ {b}) \cup {nb} ELSE live
          /\ err' = err \cup AcquireErrs(r, answers, ar.lim, TRUE)
                        \cup (IF r.ok THEN NewBlockErrs(nb, r.a, live \ {b, nb}) ELSE {})
                        \cup (IF cp # <<>> /\ cp[3] > 0 /\ ~(cp[1] + cp[3] <= cp[2] \/ cp[2] + cp[3] <= cp[1])
                              THEN {"C02.shrink-copy-overlaps"} ELSE {})

\* (try_)alloc_try_with: slot of (ssize, salign); the initialiser allocates closn bytes
\* (closk: 0 nothing, 1 keep, 2 release); okf: does it return Ok
TryWithOp(ssize, salign, okf, closk, closn, ans1) ==
  /\ Alive /\ Cardinality(live) + 2 <= MaxLive
  /\ ans1 \in AnswerSeqs(ChunkAlign(salign))
  /\ LET rw == [n |-> Len(ar.ch), finger |-> CurFinger(ar, sent)]
           capB == Capacity(ar, sent)
           r1 == Alloc(ar, sent, ssize, salign, ans1, FUEL)
       IN IF ~r1.ok
          THEN /\ ar' = r1.a /\ sent' = r1.sent /\ heap' = HeapAfter(r1.a)
               /\ nslot' = IF Granted(r1.reqs, ans1) # {} THEN nslot + 1 ELSE nslot
               /\ err' = err \cup AcquireErrs(r1, ans1, ar.lim, TRUE)
               /\ UNCHANGED live
          ELSE LET took1 == Granted(r1.reqs, ans1) # {}
                   \* the initialiser's allocation is served from the current chunk or fails over to
                   \* a chunk the allocator grants right away (no refusals inside the closure)
                   ns1 == IF took1 THEN nslot + 1 ELSE nslot
                   base2 == (ns1 + 1) * SLOT
                   ans2 == IF ns1 >= MaxSlots THEN [i \in 1..FUEL |-> 0] ELSE <<base2>>
                   r2 == IF closk = 0 THEN [ok |-> TRUE, a |-> r1.a, sent |-> r1.sent, reqs |-> <<>>, addr |-> 0, exhausted |-> FALSE]
                         ELSE Alloc(r1.a, r1.sent, closn, 1, ans2, FUEL)
               IN IF FALSE THEN UNCHANGED vars
                  ELSE LET took2 == closk # 0 /\ Granted(r2.reqs, ans2) # {}
                           \* the initialiser uses the fallible flavour and goes without if refused
                           kb == Blk(r2.addr, closn, 1)
                           r3 == IF closk = 2 /\ r2.ok THEN Dealloc(r2.a, r2.sent, r2.addr, closn) ELSE [a |-> r2.a, sent |-> r2.sent]
                           slot == Blk(r1.addr, ssize, salign)
                           kept == IF closk = 1 /\ r2.ok THEN {kb} ELSE {}
                           fin == IF okf THEN r3 ELSE Rewind(r3.a, r3.sent, rw, r1.addr)
                           \* the same layout requested next
                           again == Alloc(fin.a, fin.sent, ssize, salign, [i \in 1..FUEL |-> 0], FUEL)
                       IN /\ ar' = fin.a /\ sent' = fin.sent
                          /\ heap' = HeapAfter(fin.a)
                          /\ nslot' = IF took2 THEN ns1 + 1 ELSE ns1
                          /\ live' = live \cup kept \cup (IF okf THEN {slot} ELSE {})
                          /\ err' = err \cup AcquireErrs(r1, ans1, ar.lim, TRUE)
                                \cup NewBlockErrs(slot, r1.a, live)
                                \cup (IF closk = 1 /\ r2.ok THEN NewBlockErrs(kb, r2.a, live \cup {slot}) ELSE {})
                                \cup (IF ~okf /\ closk = 0 /\ ~again.ok THEN {"C11.failed-slot-not-reusable"} ELSE {})
                                \cup (IF ~okf /\ \E o \in live \cup kept : o.size > 0 /\
                                          ~\E i \in 1..Len(fin.a.ch) :
                                             InChunk(o, fin.a.ch[i]) /\ o.addr >= fin.a.ch[i].finger
                                      THEN {"C11.rewind-exposes-live-block"} ELSE {})

\* alloc_slice_try_fill_*: reserve, initialiser fails, reservation released via dealloc
TryFillFail(size, align, answers) ==
  /\ Alive /\ EnableTryFill
  /\ size % align = 0        \* Layout::array::<T>(len): the size is a multiple of the alignment
  /\ answers \in AnswerSeqs(ChunkAlign(align))
  /\ LET r == Alloc(ar, sent, size, align, answers, FUEL)
           w == IF r.ok THEN Dealloc(r.a, r.sent, r.addr, size) ELSE [a |-> r.a, sent |-> r.sent]
           again == Alloc(w.a, w.sent, size, align, [i \in 1..FUEL |-> 0], FUEL)
       IN /\ ar' = w.a /\ sent' = w.sent
          /\ heap' = HeapAfter(w.a)
          /\ nslot' = IF Granted(r.reqs, answers) # {} THEN nslot + 1 ELSE nslot
          /\ err' = err \cup AcquireErrs(r, answers, ar.lim, FALSE)
                        \cup (IF r.ok THEN NewBlockErrs(Blk(r.addr, size, align), r.a, live) ELSE {})
                        \cup (IF r.ok /\ ~again.ok THEN {"C11.failed-fill-not-reusable"} ELSE {})
          /\ UNCHANGED live

ResetOp ==
  /\ Alive
  /\ LET r == Reset(ar)
         freed == {BlockOf(r.freed[i]) : i \in 1..Len(r.freed)}
         a2 == r.a
     IN /\ ar' = a2
        /\ heap' = heap \ freed
        /\ live' = {}
        /\ err' = err \cup (IF ~(freed \subseteq heap) THEN {"C03.free-of-unheld-block"} ELSE {})
                      \cup (IF Cardinality(freed) # Len(r.freed) THEN {"C03.double-free"} ELSE {})
                      \cup (IF Len(a2.ch) > 1 THEN {"C06.more-than-one-chunk-kept"} ELSE {})
                      \cup (IF a2.ch # <<>> /\ Cur(a2).finger # Footer(Cur(a2)) THEN {"C06.not-empty-after-reset"} ELSE {})
                      \cup (IF a2.lim # ar.lim \/ a2.ma # ar.ma THEN {"C06.limit-or-align-changed"} ELSE {})
                      \cup (IF Chunkless(ar) /\ a2 # ar THEN {"C06.reset-of-empty-arena-not-noop"} ELSE {})
        /\ UNCHANGED <<sent, nslot>>

SetLimit(lim) ==
  /\ Alive
  /\ ar' = [ar EXCEPT !.lim = lim]
  /\ UNCHANGED <<sent, heap, live, nslot, err>>

DropOp ==
  /\ Alive
  /\ LET fr == DropFrees(ar)
         freed == {BlockOf(fr[i]) : i \in 1..Len(fr)}
     IN /\ ar' = None
        /\ heap' = heap \ freed
        /\ live' = {}
        /\ err' = err \cup (IF ~(freed \subseteq heap) THEN {"C03.free-of-unheld-block"} ELSE {})
                      \cup (IF Cardinality(freed) # Len(fr) THEN {"C03.double-free"} ELSE {})
                      \cup (IF heap \ freed # {} THEN {"C03.leak-at-drop"} ELSE {})
        /\ UNCHANGED <<sent, nslot>>

Next ==
  \/ \E ma \in MinAligns : Create(ma)
  \/ \E ma \in MinAligns, cap \in Caps : CreateWithCapacity(ma, cap)
  \/ \E s \in Sizes, al \in Aligns : \E ans \in AnswerSeqs(ChunkAlign(al)) : AllocOp(s, al, ans)
  \/ \E b \in live : DeallocOp(b)
  \/ \E b \in live, inc \in GrowIncs, al \in Aligns : \E ans \in AnswerSeqs(ChunkAlign(al)) : GrowOp(b, inc, al, ans)
  \/ \E b \in live, dec \in ShrinkDecs, al \in Aligns : \E ans \in AnswerSeqs(ChunkAlign(al)) : ShrinkOp(b, dec, al, ans)
  \/ \E s \in Sizes, al \in Aligns, okf \in BOOLEAN, ck \in 0..2, cn \in ClosSizes :
        \E ans \in AnswerSeqs(ChunkAlign(al)) : TryWithOp(s, al, okf, ck, cn, ans)
  \/ \E s \in Sizes, al \in Aligns : \E ans \in AnswerSeqs(ChunkAlign(al)) : TryFillFail(s, al, ans)
  \/ ResetOp
  \/ \E lim \in Limits \cup {NoLimit} : SetLimit(lim)
  \/ DropOp

Init ==
  /\ ar = None
  /\ \E s \in SentAddrs : sent = [addr |-> s, finger |-> s]
  /\ heap = {} /\ live = {} /\ nslot = 0 /\ err = {}

Spec == Init /\ [][Next]_vars

\* Older chunks are never bumped again: their fingers and accounting fields cannot influence any
\* later step (reset/drop free them by base/size/align only), and every invariant about them was
\* checked when they were last written.  Identify states that differ only there.
ViewAr == [ar EXCEPT !.ch = [i \in 1..Len(ar.ch) |->
             IF i = Len(ar.ch) THEN ar.ch[i] ELSE [ar.ch[i] EXCEPT !.finger = 0, !.ab = 0]]]
View == <<ViewAr, sent, heap, live, nslot, err>>

\* ---------------------------------------------------------------- invariants
NoObligationFailed == err = {}                                               \* per-step obligations

InBounds == \A b \in live : b.size > 0 => \E c \in Chunks : InChunk(b, c)                      \* C01
Disjoint == \A b1, b2 \in live : b1 # b2 => ~Overlap(b1, b2)                                    \* C01
AlignedBlocks == Alive => \A b \in live : b.addr % b.align = 0 /\ b.addr % ar.ma = 0            \* C04
FingerInv ==                                                                                     \* C04 (state part)
  Alive /\ ValidMinAlign(ar.ma) =>
    /\ \A c \in Chunks : c.base <= c.finger /\ c.finger <= Footer(c) /\ c.finger % ar.ma = 0
    /\ sent.finger % ar.ma = 0
\* everything below the finger of the current chunk is free; older chunks are never bumped again
LiveAboveFinger ==
  Alive /\ ~Chunkless(ar) =>
    \A b \in live : b.size > 0 /\ InChunk(b, Cur(ar)) => b.addr >= Cur(ar).finger
HeapIsChunks == heap = (IF Alive THEN HeapAfter(ar) ELSE {})                                     \* C03
ChunksDistinct == \A i, j \in 1..Len(ar.ch) : i # j => ar.ch[i].base # ar.ch[j].base
Accounting ==                                                                                    \* C08
  Alive => /\ AllocatedBytesInclMeta(ar) = TotalHeld(ar)
           /\ AllocatedBytes(ar) = UsableHeld(ar)
SentinelUntouched == sent.finger = sent.addr                                                     \* C20 (value)
CapacityWithinChunk == Alive => Capacity(ar, sent) >= 0

=============================================================================
