--------------------------- MODULE FastPathEquiv ---------------------------
(***************************************************************************)
(* FastPathInd.tla carries          its own copy of the fast-path formula  *)
(* (Apalache needs literal moduli and type annotations).  This module      *)
(* checks with TLC that the copy equals ArenaCore!FastAddr -- the formula  *)
(* the trace specification binds to the code -- for every MIN_ALIGN, every *)
(* finger position of a small chunk at two base residues, every size up to *)
(* beyond the chunk and every alignment up to 64, and likewise for the     *)
(* rounding operators.  (FastPathInd's DeallocLast / ShrinkLast / GrowLast *)
(* are the in-place branches of ArenaCore's Dealloc / Shrink / Grow        *)
(* written over these operators; that correspondence is by inspection.)    *)
(***************************************************************************)
EXTENDS Integers, TLC

VARIABLES ma, data, footer, finger, has, bAddr, bSize, bAlign, bHi
vars == <<ma, data, footer, finger, has, bAddr, bSize, bAlign, bHi>>

Core == INSTANCE ArenaCore WITH CHUNK_ALIGN <- 16, FOOTER <- 48, MALLOC_OVERHEAD <- 16, FIRST_GOAL <- 512, PAGE <- 4096
FP == INSTANCE FastPathInd WITH AlignC <- 1

SmallAligns == {1, 2, 4, 8, 16, 32, 64}

Init ==
  /\ ma \in {1, 2, 4, 8, 16}
  /\ data \in {64, 80}
  /\ footer = data + 96
  /\ finger \in {f \in data..footer : f % ma = 0}
  /\ has = FALSE /\ bAddr = 0 /\ bSize = 0 /\ bAlign = 1 /\ bHi = 0
Next == UNCHANGED vars
Spec == Init /\ [][Next]_vars

SameFastAddr ==
  \A size \in 0..112 : \A align \in SmallAligns :
    FP!FastAddr(size, align) = Core!FastAddr(ma, data, finger, size, align)

SameRounding ==
  \A n \in 0..200 : \A a \in SmallAligns :
    /\ FP!RoundDown(n, a) = Core!RoundDown(n, a)
    /\ FP!RoundUp(n, a) = Core!RoundUp(n, a)
=============================================================================
