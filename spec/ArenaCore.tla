----------------------------- MODULE ArenaCore -----------------------------
(***************************************************************************)
(* Implementation-shaped definitions for bumpalo's arena (src/lib.rs).     *)
(* Pure operators over an explicit arena record, so that the very same     *)
(* definitions are used by                                                 *)
(*   - Arena.tla        : the state machine TLC explores exhaustively,     *)
(*   - ArenaTrace.tla   : strict validation of traces recorded from the    *)
(*                        real crate (code -> spec),                       *)
(*   - the replay generator (spec -> code).                                *)
(* Line numbers refer to /repo/src/lib.rs at the pinned commit.            *)
(***************************************************************************)
EXTENDS Integers, Sequences, FiniteSets, TLC

CONSTANTS
  CHUNK_ALIGN,      \* 16   (lib.rs:475)
  FOOTER,           \* 48   size_of::<ChunkFooter>() (lib.rs:476)
  MALLOC_OVERHEAD,  \* 16   (lib.rs:485)
  FIRST_GOAL,       \* 512  (lib.rs:500)
  PAGE              \* 4096 (lib.rs:471)

Max(a, b) == IF a >= b THEN a ELSE b
Min(a, b) == IF a <= b THEN a ELSE b
RoundDown(n, a) == n - (n % a)
RoundUp(n, a)   == RoundDown(n + a - 1, a)

OVERHEAD == RoundUp(MALLOC_OVERHEAD + FOOTER, CHUNK_ALIGN)     \* lib.rs:493
DEFAULT  == FIRST_GOAL - OVERHEAD                              \* lib.rs:506

NoLimit == -1
NoAddr  == -1

RECURSIVE NextPow2From(_, _)
NextPow2From(p, n) == IF p >= n THEN p ELSE NextPow2From(2 * p, n)
NextPow2(n) == NextPow2From(1, n)          \* usize::next_power_of_two (0 -> 1)

(***************************************************************************)
(* A chunk: the block [base, base+size) obtained from the global allocator *)
(* with alignment `align`; the footer sits at base+wo (wo = "size without  *)
(* footer"); `finger` is the downward-moving bump pointer; `ab` is the     *)
(* footer's allocated_bytes field.                                         *)
(***************************************************************************)
Footer(c) == c.base + c.wo

(***************************************************************************)
(* An arena: minimum alignment, optional limit, and the chunk list oldest  *)
(* first (so the current chunk is the last element).  An arena whose list  *)
(* is empty points at the shared static empty chunk `sent` = [addr,finger].*)
(***************************************************************************)
Chunkless(a) == a.ch = <<>>
Cur(a) == a.ch[Len(a.ch)]

\* the (data, finger, footer, layout size, allocated_bytes) the code reads through
\* current_chunk_footer, for either kind of arena
CurData(a, sent)   == IF Chunkless(a) THEN sent.addr   ELSE Cur(a).base
CurFinger(a, sent) == IF Chunkless(a) THEN sent.finger ELSE Cur(a).finger
CurFooter(a, sent) == IF Chunkless(a) THEN sent.addr   ELSE Footer(Cur(a))
CurLayoutSize(a)   == IF Chunkless(a) THEN FOOTER      ELSE Cur(a).size
AllocatedBytes(a)  == IF Chunkless(a) THEN 0           ELSE Cur(a).ab      \* 2204-2208
AllocatedBytesInclMeta(a) == AllocatedBytes(a) + Len(a.ch) * FOOTER         \* 2214-2218
Capacity(a, sent)  == CurFinger(a, sent) - CurData(a, sent)                 \* 1995-2000

WithFinger(a, sent, f) ==
  IF Chunkless(a) THEN [a |-> a, sent |-> [sent EXCEPT !.finger = f]]
  ELSE [a |-> [a EXCEPT !.ch[Len(a.ch)].finger = f], sent |-> sent]

(***************************************************************************)
(* new_chunk_memory_details (829-872). hint = -1 stands for None.          *)
(***************************************************************************)
Details(ma, hint, size, align) ==
  LET al  == Max(Max(CHUNK_ALIGN, ma), align)
      h   == IF hint = -1 THEN DEFAULT ELSE hint
      wo0 == Max(h, RoundUp(size, al))
      wo1 == IF wo0 < PAGE THEN NextPow2(wo0 + OVERHEAD) - OVERHEAD
             ELSE RoundUp(wo0 + OVERHEAD, PAGE) - OVERHEAD
  IN [wo |-> wo1, size |-> wo1 + FOOTER, align |-> al]

(***************************************************************************)
(* try_alloc_layout_fast (1888-1981): address handed out, or NoAddr.       *)
(***************************************************************************)
FastAddr(ma, data, finger, size, align) ==
  LET asz   == IF align < ma THEN RoundUp(size, ma) ELSE RoundUp(size, align)
      basep == IF align > ma THEN RoundDown(finger, align) ELSE finger
  IN IF basep >= data /\ asz <= basep - data THEN basep - asz ELSE NoAddr

(***************************************************************************)
(* allocation_limit_remaining (802-811): -1 stands for None.  Note that    *)
(* "more held than the limit" yields zero headroom.                        *)
(***************************************************************************)
LimitRemaining(a) ==
  IF a.lim = NoLimit THEN -1
  ELSE IF AllocatedBytes(a) > a.lim THEN 0
  ELSE a.lim - AllocatedBytes(a)

FitsLimit(rem, det) == rem = -1 \/ rem >= det.wo          \* 815-824

(***************************************************************************)
(* alloc_layout_slow (2006-2064): the retry loop.                          *)
(***************************************************************************)
MinNewChunk(size) == Max(size, DEFAULT)                                       \* 2018
BaseSize0(a, size) == Max((CurLayoutSize(a) - FOOTER) * 2, MinNewChunk(size)) \* 2019-2021

Bypass(a, size, bs) ==                                                        \* 2023-2026
  /\ a.lim # NoLimit /\ size < a.lim /\ bs >= size
  /\ a.lim < DEFAULT /\ AllocatedBytes(a) = 0

\* does the from_fn closure yield for base size bs?  (bs = -1: the zero candidate was already offered)
Yields(a, size, bs) == bs >= 0 /\ (bs >= MinNewChunk(size) \/ Bypass(a, size, bs))
\* next base size: halving, and the zero-sized candidate is offered only once
Halve(bs) == IF bs = 0 THEN -1 ELSE bs \div 2

\* commit of a granted chunk (new_chunk 879-938 + 2056)
NewChunk(a, det, base) ==
  [base |-> base, size |-> det.size, align |-> det.align, wo |-> det.wo,
   finger |-> RoundDown(base + det.wo, a.ma),
   ab |-> AllocatedBytes(a) + det.wo]

(***************************************************************************)
(* Whole slow path as a function of the allocator's answers.  `answers` is *)
(* the sequence of answers to successive requests (0 = refused, otherwise  *)
(* the base address granted).  Returns the requests issued, the number of  *)
(* answers consumed and the resulting arena.  `fuel` bounds the recursion  *)
(* (the real loop need not terminate, see Arena.tla's liveness property).  *)
(***************************************************************************)
RECURSIVE SlowLoop(_, _, _, _, _, _, _, _)
SlowLoop(a, size, align, rem, bs, answers, reqs, fuel) ==
  IF fuel = 0 THEN [ok |-> FALSE, reqs |-> reqs, a |-> a, exhausted |-> TRUE]
  ELSE IF ~Yields(a, size, bs) THEN [ok |-> FALSE, reqs |-> reqs, a |-> a, exhausted |-> FALSE]
  ELSE LET det == Details(a.ma, bs, size, align) IN
       IF ~FitsLimit(rem, det)
       THEN SlowLoop(a, size, align, rem, Halve(bs), answers, reqs, fuel - 1)
       ELSE LET k == Len(reqs) + 1
                req == <<det.size, det.align>>
            IN IF k > Len(answers)
               THEN \* the trace has no answer for this request
                    [ok |-> FALSE, reqs |-> Append(reqs, req), a |-> a, exhausted |-> TRUE]
               ELSE IF answers[k] = 0
               THEN SlowLoop(a, size, align, rem, Halve(bs), answers, Append(reqs, req), fuel - 1)
               ELSE [ok |-> TRUE, reqs |-> Append(reqs, req),
                     a |-> [a EXCEPT !.ch = Append(a.ch, NewChunk(a, det, answers[k]))],
                     exhausted |-> FALSE]

(***************************************************************************)
(* try_alloc_layout (1879-1885) = fast path, else slow path + fast path.   *)
(* Result: [ok, addr, a, sent, reqs]                                       *)
(***************************************************************************)
Alloc(a, sent, size, align, answers, fuel) ==
  LET p == FastAddr(a.ma, CurData(a, sent), CurFinger(a, sent), size, align) IN
  IF p # NoAddr
  THEN LET w == WithFinger(a, sent, p) IN
       [ok |-> TRUE, addr |-> p, a |-> w.a, sent |-> w.sent, reqs |-> <<>>, exhausted |-> FALSE]
  ELSE LET s == SlowLoop(a, size, align, LimitRemaining(a), BaseSize0(a, size), answers, <<>>, fuel) IN
       IF ~s.ok
       THEN [ok |-> FALSE, addr |-> NoAddr, a |-> a, sent |-> sent, reqs |-> s.reqs, exhausted |-> s.exhausted]
       ELSE LET c == Cur(s.a)
                q == FastAddr(a.ma, c.base, c.finger, size, align)
            IN \* 2060-2061: the code debug_asserts that this succeeds
               IF q = NoAddr
               THEN [ok |-> FALSE, addr |-> NoAddr, a |-> s.a, sent |-> sent, reqs |-> s.reqs, exhausted |-> FALSE]
               ELSE [ok |-> TRUE, addr |-> q, a |-> [s.a EXCEPT !.ch[Len(s.a.ch)].finger = q],
                     sent |-> sent, reqs |-> s.reqs, exhausted |-> FALSE]

(***************************************************************************)
(* dealloc (2228-2243)                                                     *)
(***************************************************************************)
IsLast(a, sent, ptr) == CurFinger(a, sent) = ptr                              \* 2221-2225
Dealloc(a, sent, ptr, size) ==
  IF IsLast(a, sent, ptr) THEN WithFinger(a, sent, RoundUp(ptr + size, a.ma))
  ELSE [a |-> a, sent |-> sent]

(***************************************************************************)
(* shrink (2246-2339).  Result like Alloc plus `copy` = <<from, to, n>>    *)
(* describing the copy_nonoverlapping it performs (<<>> if none).          *)
(***************************************************************************)
Shrink(a, sent, ptr, osz, oal, nsz, nal, answers, fuel) ==
  IF oal < nal
  THEN IF ptr % nal = 0
       THEN [ok |-> TRUE, addr |-> ptr, a |-> a, sent |-> sent, reqs |-> <<>>, copy |-> <<>>, exhausted |-> FALSE]
       ELSE LET r == Alloc(a, sent, nsz, nal, answers, fuel) IN
            [ok |-> r.ok, addr |-> r.addr, a |-> r.a, sent |-> r.sent, reqs |-> r.reqs,
             copy |-> IF r.ok THEN <<ptr, r.addr, nsz>> ELSE <<>>, exhausted |-> r.exhausted]
  ELSE LET delta == RoundDown(osz - nsz, Max(nal, a.ma)) IN
       IF IsLast(a, sent, ptr) /\ delta >= (osz + 1) \div 2
       THEN LET np == CurFinger(a, sent) + delta
                w  == WithFinger(a, sent, np)
            IN [ok |-> TRUE, addr |-> np, a |-> w.a, sent |-> w.sent, reqs |-> <<>>,
                copy |-> <<ptr, np, nsz>>, exhausted |-> FALSE]
       ELSE [ok |-> TRUE, addr |-> ptr, a |-> a, sent |-> sent, reqs |-> <<>>, copy |-> <<>>, exhausted |-> FALSE]

(***************************************************************************)
(* grow (2342-2371).  `move` = <<from, to, n>> is the (overlapping-safe)   *)
(* ptr::copy of the in-place branch, `copy` the copy_nonoverlapping of the *)
(* fallback.                                                               *)
(***************************************************************************)
Grow(a, sent, ptr, osz, oal, nsz, nal, answers, fuel) ==
  LET nsz2 == RoundUp(nsz, a.ma)
      inplace == IF oal >= nal /\ IsLast(a, sent, ptr)
                 THEN FastAddr(a.ma, CurData(a, sent), CurFinger(a, sent), nsz2 - osz, oal)
                 ELSE NoAddr
  IN IF inplace # NoAddr
     THEN LET w == WithFinger(a, sent, inplace) IN
          [ok |-> TRUE, addr |-> inplace, a |-> w.a, sent |-> w.sent, reqs |-> <<>>,
           move |-> <<ptr, inplace, osz>>, copy |-> <<>>, exhausted |-> FALSE]
     ELSE LET r == Alloc(a, sent, nsz, nal, answers, fuel) IN
          [ok |-> r.ok, addr |-> r.addr, a |-> r.a, sent |-> r.sent, reqs |-> r.reqs,
           move |-> <<>>, copy |-> IF r.ok THEN <<ptr, r.addr, osz>> ELSE <<>>, exhausted |-> r.exhausted]

(***************************************************************************)
(* reset (971-1011): frees every chunk but the current one, rewinds the    *)
(* finger to the footer and recomputes the accounting.                     *)
(* ResetAB is the value written at line 993 (see DESIGN section 10 #1).    *)
(***************************************************************************)
ResetAB(c) == c.wo
Reset(a) ==
  IF Chunkless(a) THEN [a |-> a, freed |-> <<>>]
  ELSE LET c == Cur(a)
           n == Len(a.ch)
       IN [a |-> [a EXCEPT !.ch = << [c EXCEPT !.finger = Footer(c), !.ab = ResetAB(c)] >>],
           \* dealloc_chunk_list walks prev links: newest of the rest first
           freed |-> [i \in 1..(n - 1) |-> a.ch[n - i]]]

(***************************************************************************)
(* Rewind after a failed initialiser (1215-1259, 1323-1367).               *)
(* rw = [n |-> number of chunks at entry, finger |-> finger at entry]      *)
(* RewindNewChunkTarget is where the finger goes when the result slot      *)
(* forced a new chunk (line 1247 / 1355; see DESIGN section 10 #2).        *)
(***************************************************************************)
RewindNewChunkTarget(c) == Footer(c)
Rewind(a, sent, rw, slot) ==
  IF ~IsLast(a, sent, slot) THEN [a |-> a, sent |-> sent]
  ELSE IF Len(a.ch) = rw.n THEN WithFinger(a, sent, rw.finger)
  ELSE WithFinger(a, sent, RewindNewChunkTarget(Cur(a)))

(***************************************************************************)
(* Drop (386-401): every chunk, newest first.                              *)
(***************************************************************************)
DropFrees(a) == [i \in 1..Len(a.ch) |-> a.ch[Len(a.ch) + 1 - i]]

(***************************************************************************)
(* chunk iteration (2425-2438): newest first, (finger, footer - finger)    *)
(***************************************************************************)
IterChunks(a) == [i \in 1..Len(a.ch) |->
                    LET c == a.ch[Len(a.ch) + 1 - i] IN <<c.finger, Footer(c) - c.finger>>]

(***************************************************************************)
(* constructor with capacity (708-740): request for the first chunk.       *)
(***************************************************************************)
CreateDetails(ma, cap) == Details(ma, -1, cap, ma)

IsPow2(n) == n >= 1 /\ NextPow2(n) = n
ValidMinAlign(ma) == IsPow2(ma) /\ ma <= CHUNK_ALIGN                          \* 626-633

=============================================================================
