SPECIFICATION Spec
VIEW View
CHECK_DEADLOCK FALSE
CONSTANTS
  CHUNK_ALIGN = 4
  FOOTER = 4
  MALLOC_OVERHEAD = 4
  FIRST_GOAL = 32
  PAGE = 64
  SentAddrs = {16}
  SLOT = 1024
  MinAligns = {1, 4}
  Sizes = {3, 8}
  Aligns = {1, 4, 8}
  Caps = {25}
  Limits = {}
  MaxSlots = 2
  MaxLive = 2
  MaxRefuse = 0
  GrowIncs = {1, 5, 30}
  ShrinkDecs = {1, 4, 7}
  ClosSizes = {}
  TrackLive = TRUE
  EnableTryFill = FALSE
INVARIANTS
  NoObligationFailed
  InBounds
  Disjoint
  AlignedBlocks
  FingerInv
  LiveAboveFinger
  HeapIsChunks
  ChunksDistinct
  Accounting
  SentinelUntouched
  CapacityWithinChunk
