------------------------------ MODULE PanicSafe ------------------------------
(***************************************************************************)
(* (A) for C16: the callback-taking algorithms of the collections as       *)
(* step-by-step machines, with a panic possible at every callback (the     *)
(* predicate, an element's destructor), and the guards that run while      *)
(* unwinding.  TLC explores every input, every outcome of every callback   *)
(* call and every panic point; when the call is over -- normally or by     *)
(* unwinding -- the container the caller still holds must be sound:        *)
(*   NoDuplicate        no element occurs twice in it;                     *)
(*   NothingDropped     it contains no destroyed element;                  *)
(*   NothingMovedOut    it contains no element already handed to the       *)
(*                      caller;                                            *)
(*   NoDoubleDrop       no destructor ran twice;                           *)
(*   NoLeakWithoutPanic if nothing panicked every element is in exactly    *)
(*                      one place;                                         *)
(*   ValidUtf8          (String::retain) the bytes are whole characters.   *)
(* Machines (transcribed from src/collections/vec.rs, string.rs):          *)
(*   "drain_filter"  DrainFilter::next / Drop with BackshiftOnDrop         *)
(*                   (Vec::retain is drain_filter with the predicate       *)
(*                   negated and every item dropped);                      *)
(*   "truncate"      Vec::truncate (also the tail of dedup_by, clear);     *)
(*   "str_retain"    String::retain with its SetLenOnDrop guard;           *)
(*   "dedup"         Vec::dedup_by = partition_dedup_by (swap-based, so    *)
(*                   the slice stays a permutation at every predicate      *)
(*                   call) followed by truncate;                           *)
(*   "splice"        Splice::drop (fill the gap, move the tail by the      *)
(*                   size_hint's lower bound, collect the rest, move       *)
(*                   again, fill) and Drain::drop, with the replacement    *)
(*                   iterator free to panic at every next() and to report  *)
(*                   any lower bound up to what it really has.             *)
(* Variant = "code" is the code as it is; the other variants are the       *)
(* pre-fix / seeded forms (configs *_bad expect a violation): they show    *)
(* that the laws have teeth and document why each guard is there.          *)
(***************************************************************************)
EXTENDS Integers, Sequences, FiniteSets, TLC

CONSTANTS N,        \* number of elements / characters
          Machine,  \* "drain_filter" | "truncate" | "str_retain" | "dedup"
          Variant   \* "code" | "no_backshift" | "drop_then_set_len" | "advance_first" | "copy_not_swap" | "leftover_still_owned"

Ids == 1..N
Widths == {1, 2, 3}

VARIABLES
  buf,      \* physical slots: drain_filter / truncate: slot -> element id; str_retain: byte -> <<char, k>>
  vlen,     \* the container's length field
  idx, del, oldLen, pflag,
  pc,       \* "run" | "unwind" | "done"
  held,     \* elements handed to the caller
  drops,    \* id -> number of times its destructor ran
  take,     \* how many items the caller pulls before it drops the iterator (drain_filter)
  panicked,
  width     \* str_retain: char -> its width in bytes
vars == <<buf, vlen, idx, del, oldLen, pflag, pc, held, drops, take, panicked, width>>

Content == [i \in 1..vlen |-> buf[i]]
ContentSet == {buf[i] : i \in 1..vlen}

\* ------------------------------------------------------------ drain_filter
DFInit ==
  /\ buf = [i \in 1..N |-> i] /\ vlen = 0          \* set_len(0) up front: leak amplification
  /\ idx = 0 /\ del = 0 /\ oldLen = N /\ pflag = FALSE
  /\ take \in 0..N /\ held = {} /\ drops = [i \in Ids |-> 0]
  /\ pc = "run" /\ panicked = FALSE /\ width = [i \in Ids |-> 1]

\* one iteration of DrainFilter::next's loop; `consume` = the item goes to the caller (TRUE) or is dropped
\* by Drop's for_each(drop) (FALSE)
DFStep(consume) ==
  /\ idx # oldLen
  /\ \E outcome \in {"drain", "keep", "panic"} :
       LET i == idx + 1 IN
       CASE outcome = "panic" ->
              \* the predicate panics: panic_flag stays set, unwinding starts
              /\ pflag' = TRUE /\ panicked' = TRUE /\ pc' = "unwind"
              /\ UNCHANGED <<buf, vlen, idx, del, oldLen, held, drops, take, width>>
         [] outcome = "drain" ->
              /\ idx' = idx + 1 /\ del' = del + 1
              /\ IF consume THEN held' = held \cup {buf[i]} /\ UNCHANGED drops
                 ELSE drops' = [drops EXCEPT ![buf[i]] = @ + 1] /\ UNCHANGED held
              /\ UNCHANGED <<buf, vlen, oldLen, pflag, pc, take, panicked, width>>
         [] OTHER ->
              /\ idx' = idx + 1
              /\ buf' = IF del > 0 THEN [buf EXCEPT ![i - del] = buf[i]] ELSE buf
              /\ UNCHANGED <<vlen, del, oldLen, pflag, pc, held, drops, take, panicked, width>>

\* BackshiftOnDrop::drop
Backshift ==
  LET shift == IF Variant = "no_backshift" THEN FALSE ELSE idx < oldLen /\ del > 0
      nb == IF shift THEN [k \in 1..N |-> IF k > idx - del /\ k <= oldLen - del THEN buf[k + del] ELSE buf[k]] ELSE buf
  IN /\ buf' = nb /\ vlen' = oldLen - del /\ pc' = "done"
     /\ UNCHANGED <<idx, del, oldLen, pflag, held, drops, take, panicked, width>>

DFNext ==
  \/ /\ pc = "run" /\ Cardinality(held) < take /\ DFStep(TRUE)               \* the caller pulls an item
  \/ /\ pc = "run" /\ (Cardinality(held) >= take \/ idx = oldLen)            \* the caller drops the iterator:
     /\ IF idx # oldLen /\ ~pflag THEN DFStep(FALSE)                         \*   for_each(drop) ...
        ELSE Backshift                                                        \*   ... then the guard
  \/ /\ pc = "unwind" /\ Backshift                                           \* the guard runs while unwinding

\* ---------------------------------------------------------------- truncate
\* truncate(0) on N elements whose destructors may panic (once: a second panic while unwinding aborts)
TRInit ==
  /\ buf = [i \in 1..N |-> i] /\ vlen = N /\ idx = N /\ del = 0 /\ oldLen = N /\ pflag = FALSE
  /\ take = 0 /\ held = {} /\ drops = [i \in Ids |-> 0] /\ pc = "run" /\ panicked = FALSE
  /\ width = [i \in Ids |-> 1]

TRNext ==
  /\ pc = "run"
  /\ IF idx = 0 THEN /\ pc' = "done"
                     /\ vlen' = IF Variant = "drop_then_set_len" THEN 0 ELSE vlen
                     /\ UNCHANGED <<buf, idx, del, oldLen, pflag, held, drops, take, panicked, width>>
     ELSE \E dpanic \in {FALSE, TRUE} :
            /\ (dpanic => ~panicked)
            \* "code": the length is decremented before the destructor runs (SetLenOnDrop writes it back on
            \* every exit); "drop_then_set_len": destructors of the whole tail first, the length afterwards --
            \* and the slice drop glue keeps dropping the rest after one destructor panicked
            /\ drops' = [drops EXCEPT ![buf[idx]] = @ + 1]
            /\ idx' = idx - 1
            /\ vlen' = IF Variant = "drop_then_set_len" THEN vlen ELSE vlen - 1
            /\ panicked' = (panicked \/ dpanic)
            /\ pc' = IF dpanic /\ Variant # "drop_then_set_len" THEN "done" ELSE "run"
            /\ UNCHANGED <<buf, del, oldLen, pflag, held, take, width>>
\* (drop_then_set_len: after a destructor panic the glue drops the remaining elements and unwinds without
\*  ever reaching set_len; modelled by never updating vlen once panicked)
TRDone == pc = "run" /\ idx = 0 /\ Variant = "drop_then_set_len" /\ panicked
          /\ pc' = "done" /\ UNCHANGED <<buf, vlen, idx, del, oldLen, pflag, held, drops, take, panicked, width>>

\* -------------------------------------------------------------- str_retain
Bytes(w) == LET Rec[c \in 0..N] == IF c = 0 THEN <<>> ELSE Rec[c - 1] \o [k \in 1..w[c] |-> <<c, k>>] IN Rec[N]
SRInit ==
  /\ width \in [Ids -> Widths]
  /\ buf = Bytes(width) /\ vlen = Len(Bytes(width)) /\ oldLen = Len(Bytes(width))
  /\ idx = 0 /\ del = 0 /\ pflag = FALSE /\ take = 0 /\ held = {} /\ drops = [i \in Ids |-> 0]
  /\ pc = "run" /\ panicked = FALSE

SRNext ==
  /\ pc = "run"
  /\ IF idx >= oldLen
     THEN \* the loop is over: the guard's Drop sets the length
          /\ vlen' = idx - del /\ pc' = "done"
          /\ UNCHANGED <<buf, idx, del, oldLen, pflag, held, drops, take, panicked, width>>
     ELSE LET c == buf[idx + 1][1]
              w == width[c]
              from == idx
          IN \E outcome \in {"keep", "remove", "panic"} :
               CASE outcome = "panic" ->
                      \* f(ch) panics: the guard's Drop runs with the fields as they are now
                      /\ panicked' = TRUE /\ pc' = "done"
                      /\ vlen' = (IF Variant = "advance_first" THEN idx + w ELSE idx) - del
                      /\ UNCHANGED <<buf, idx, del, oldLen, pflag, held, drops, take, width>>
                 [] outcome = "remove" ->
                      /\ del' = del + w /\ idx' = idx + w
                      /\ UNCHANGED <<buf, vlen, oldLen, pflag, pc, held, drops, take, panicked, width>>
                 [] OTHER ->
                      /\ buf' = IF del > 0 THEN [k \in 1..Len(buf) |-> IF k > from - del /\ k <= from - del + w THEN buf[k + del] ELSE buf[k]]
                                ELSE buf
                      /\ idx' = idx + w
                      /\ UNCHANGED <<vlen, del, oldLen, pflag, pc, held, drops, take, panicked, width>>

\* -------------------------------------------------------------------- dedup
\* phase 1 (pflag = FALSE): partition_dedup_by with read index idx (0-based next_read) and write index del
\* (next_write); phase 2 (pflag = TRUE): truncate(next_write), destructors may panic.
DDInit ==
  /\ buf = [i \in 1..N |-> i] /\ vlen = N /\ oldLen = N
  /\ idx = 1 /\ del = 1 /\ pflag = FALSE /\ take = 0 /\ held = {} /\ drops = [i \in Ids |-> 0]
  /\ pc = "run" /\ panicked = FALSE /\ width = [i \in Ids |-> 1]

DDNext ==
  /\ pc = "run"
  /\ IF ~pflag
     THEN IF N <= 1 \/ idx >= oldLen
          THEN \* partition done: truncate(next_write) starts at the end of the vector
               /\ pflag' = TRUE /\ idx' = vlen
               /\ UNCHANGED <<buf, vlen, del, oldLen, pc, held, drops, take, panicked, width>>
          ELSE \E outcome \in {"same", "different", "panic"} :
                 CASE outcome = "panic" ->
                        \* same_bucket panics: no guard, the vector keeps its length
                        /\ panicked' = TRUE /\ pc' = "done"
                        /\ UNCHANGED <<buf, vlen, idx, del, oldLen, pflag, held, drops, take, width>>
                   [] outcome = "same" ->
                        /\ idx' = idx + 1
                        /\ UNCHANGED <<buf, vlen, del, oldLen, pflag, pc, held, drops, take, panicked, width>>
                   [] OTHER ->
                        /\ buf' = IF idx # del
                                  THEN IF Variant = "copy_not_swap" THEN [buf EXCEPT ![del + 1] = buf[idx + 1]]
                                       ELSE [buf EXCEPT ![del + 1] = buf[idx + 1], ![idx + 1] = buf[del + 1]]
                                  ELSE buf
                        /\ del' = del + 1 /\ idx' = idx + 1
                        /\ UNCHANGED <<vlen, oldLen, pflag, pc, held, drops, take, panicked, width>>
     ELSE \* truncate(del): as the "truncate" machine, down to del elements
          IF idx <= del \/ N <= 1 THEN pc' = "done" /\ UNCHANGED <<buf, vlen, idx, del, oldLen, pflag, held, drops, take, panicked, width>>
          ELSE \E dpanic \in {FALSE, TRUE} :
                 /\ (dpanic => ~panicked)
                 /\ drops' = [drops EXCEPT ![buf[idx]] = @ + 1]
                 /\ idx' = idx - 1 /\ vlen' = vlen - 1
                 /\ panicked' = (panicked \/ dpanic)
                 /\ pc' = IF dpanic THEN "done" ELSE "run"
                 /\ UNCHANGED <<buf, del, oldLen, pflag, held, take, width>>

\* ------------------------------------------------------------------- splice
\* vec = [1..N]; the range [del, oldLen) (0-based, chosen freely) is replaced by `take` new elements (ids N+1..);
\* the removed elements are dropped first.  idx = number of new elements the iterator has produced so far,
\* held = the temporary `collected` vector, pflag = "the tail has been moved for the collected rest".
\* pc: "fill" (fill the gap) -> "hint" -> "fill2" -> "collect" -> "fill3" -> "drain" (Drain::drop) -> "done"
CAP == 2 * N + 2
SPInit ==
  /\ del \in 0..N /\ oldLen \in 0..N /\ del <= oldLen           \* the range
  /\ take \in 0..(N - 1)                                          \* how many replacement elements there are
  /\ buf = [i \in 1..CAP |-> IF i <= N THEN i ELSE 0]
  /\ vlen = del                                                   \* drain(): set_len(start)
  /\ idx = 0 /\ pflag = FALSE /\ held = {} /\ panicked = FALSE
  /\ drops = [i \in 1..(2 * N) |-> IF i > del /\ i <= oldLen THEN 1 ELSE 0]   \* the removed elements: dropped
  /\ pc = "fill" /\ width = [i \in Ids |-> 1]

\* oldLen is reused as tail_start (it moves when the tail is moved); the amount by which the tail has been moved
\* so far is carried in width[1] (an integer register)
SPShift == width[1] - 1
TailLen == N - (oldLen - SPShift)

NextNew == N + idx + 1
\* one call of replace_with.next() that yields an element into slot vlen + 1 (a gap slot), or panics
SPFillStep(nextpc) ==
  IF vlen >= oldLen THEN pc' = nextpc /\ UNCHANGED <<buf, vlen, idx, del, oldLen, pflag, held, drops, take, panicked, width>>   \* gap full
  ELSE IF idx >= take THEN pc' = "drain" /\ UNCHANGED <<buf, vlen, idx, del, oldLen, pflag, held, drops, take, panicked, width>>  \* iterator dry: return
  ELSE \E p \in {FALSE, TRUE} :
         IF p THEN /\ panicked' = TRUE /\ pc' = "drain"
                   /\ UNCHANGED <<buf, vlen, idx, del, oldLen, pflag, held, drops, take, width>>
         ELSE /\ buf' = [buf EXCEPT ![vlen + 1] = NextNew] /\ vlen' = vlen + 1 /\ idx' = idx + 1
              /\ UNCHANGED <<del, oldLen, pflag, pc, held, drops, take, panicked, width>>

\* move_tail(k): the TailLen elements at tail_start go k slots up
MoveTail(k) ==
  /\ buf' = [i \in 1..CAP |-> IF i > oldLen + k /\ i <= oldLen + k + TailLen THEN buf[i - k] ELSE buf[i]]
  /\ oldLen' = oldLen + k
  /\ width' = [width EXCEPT ![1] = @ + k]

SPNext ==
  CASE pc = "fill" ->
         IF TailLen = 0
         THEN \* nothing after the range: plain extend
              IF idx >= take THEN pc' = "done" /\ UNCHANGED <<buf, vlen, idx, del, oldLen, pflag, held, drops, take, panicked, width>>
              ELSE \E p \in {FALSE, TRUE} :
                     IF p THEN panicked' = TRUE /\ pc' = "done" /\ UNCHANGED <<buf, vlen, idx, del, oldLen, pflag, held, drops, take, width>>
                     ELSE /\ buf' = [buf EXCEPT ![vlen + 1] = NextNew] /\ vlen' = vlen + 1 /\ idx' = idx + 1
                          /\ UNCHANGED <<del, oldLen, pflag, pc, held, drops, take, panicked, width>>
         ELSE SPFillStep("hint")
    [] pc = "hint" ->
         \* size_hint().0: any lower bound the iterator may legally report
         \E lb \in 0..(take - idx) :
           IF lb > 0 THEN MoveTail(lb) /\ pc' = "fill2" /\ UNCHANGED <<vlen, idx, del, pflag, held, drops, take, panicked>>
           ELSE pc' = "collect" /\ UNCHANGED <<buf, vlen, idx, del, oldLen, pflag, held, drops, take, panicked, width>>
    [] pc = "fill2" -> SPFillStep("collect")
    [] pc = "collect" ->
         \* collected.extend(replace_with): every next() may panic; on a panic the temporary vector is dropped
         IF idx >= take
         THEN IF held = {} THEN pc' = "drain" /\ UNCHANGED <<buf, vlen, idx, del, oldLen, pflag, held, drops, take, panicked, width>>
              ELSE MoveTail(Cardinality(held)) /\ pc' = "fill3" /\ UNCHANGED <<vlen, idx, del, pflag, held, drops, take, panicked>>
         ELSE \E p \in {FALSE, TRUE} :
                IF p THEN /\ panicked' = TRUE /\ pc' = "drain"
                          /\ drops' = [i \in DOMAIN drops |-> IF i \in held THEN drops[i] + 1 ELSE drops[i]]
                          /\ held' = {}
                          /\ UNCHANGED <<buf, vlen, idx, del, oldLen, pflag, take, width>>
                ELSE /\ held' = held \cup {NextNew} /\ idx' = idx + 1
                     /\ UNCHANGED <<buf, vlen, del, oldLen, pflag, pc, drops, take, panicked, width>>
    [] pc = "fill3" ->
         \* fill from the collected vector's IntoIter: moves the elements out (no user code runs)
         IF held = {} \/ vlen >= oldLen
         THEN /\ pc' = "drain"
              \* whatever the temporary still owns is dropped with it
              /\ drops' = [i \in DOMAIN drops |-> IF i \in held THEN drops[i] + 1 ELSE drops[i]]
              /\ held' = {}
              /\ UNCHANGED <<buf, vlen, idx, del, oldLen, pflag, take, panicked, width>>
         ELSE LET x == CHOOSE y \in held : \A z \in held : y <= z IN
              /\ buf' = [buf EXCEPT ![vlen + 1] = x] /\ vlen' = vlen + 1
              /\ held' = IF Variant = "leftover_still_owned" THEN held ELSE held \ {x}
              /\ pflag' = (Variant = "leftover_still_owned" /\ vlen + 1 >= oldLen)
              /\ UNCHANGED <<idx, del, oldLen, pc, drops, take, panicked, width>>
    [] pc = "drain" ->
         \* Drain::drop: move the tail back down to the vector's end, restore the length
         /\ buf' = IF TailLen > 0 /\ oldLen # vlen THEN [i \in 1..CAP |-> IF i > vlen /\ i <= vlen + TailLen THEN buf[i + (oldLen - vlen)] ELSE buf[i]] ELSE buf
         /\ vlen' = vlen + TailLen
         /\ pc' = "done"
         /\ UNCHANGED <<idx, del, oldLen, pflag, held, drops, take, panicked, width>>
    [] OTHER -> FALSE

\* ------------------------------------------------------------------ spec
Init == CASE Machine = "drain_filter" -> DFInit [] Machine = "truncate" -> TRInit [] Machine = "dedup" -> DDInit
            [] Machine = "splice" -> SPInit [] OTHER -> SRInit
Next == CASE Machine = "drain_filter" -> DFNext [] Machine = "truncate" -> (TRNext \/ TRDone) [] Machine = "dedup" -> DDNext
            [] Machine = "splice" -> SPNext [] OTHER -> SRNext
Spec == Init /\ [][Next]_vars

\* ------------------------------------------------------------------ laws (when the call is over)
Over == pc = "done"
ElemMachine == Machine \in {"drain_filter", "truncate", "dedup", "splice"}
NoDuplicate == (Over /\ ElemMachine) => Cardinality(ContentSet) = vlen
NothingDropped == (Over /\ ElemMachine) => \A i \in 1..vlen : drops[buf[i]] = 0
NothingMovedOut == (Over /\ ElemMachine) => ContentSet \cap held = {}
NoDoubleDrop == \A i \in DOMAIN drops : drops[i] <= 1
NoLeakWithoutPanic ==
  (Over /\ ElemMachine /\ Machine # "splice" /\ ~panicked) => \A i \in Ids : (IF i \in ContentSet THEN 1 ELSE 0) + (IF i \in held THEN 1 ELSE 0) + drops[i] = 1
\* splice without a panic: prefix, then every replacement element in order, then the tail
SpliceResult ==
  (Over /\ Machine = "splice" /\ ~panicked) =>
     Content = [i \in 1..del |-> i] \o [i \in 1..take |-> N + i] \o [i \in 1..(N - (oldLen - SPShift)) |-> (oldLen - SPShift) + i]
\* ... and with a panic: still prefix, some of the new elements in order, the tail -- nothing lost but replacements
SpliceAfterPanic ==
  (Over /\ Machine = "splice" /\ panicked) =>
     \E k \in 0..take :
        Content = [i \in 1..del |-> i] \o [i \in 1..k |-> N + i] \o [i \in 1..(N - (oldLen - SPShift)) |-> (oldLen - SPShift) + i]
\* whole characters, each byte in its place
ValidUtf8 ==
  (Over /\ Machine = "str_retain") =>
     \A k \in 1..vlen :
        LET b == buf[k] IN
        /\ (b[2] = 1 => k + width[b[1]] - 1 <= vlen)
        /\ (b[2] > 1 => k > 1 /\ buf[k - 1] = <<b[1], b[2] - 1>>)
        /\ (b[2] < width[b[1]] => k < vlen /\ buf[k + 1] = <<b[1], b[2] + 1>>)
=============================================================================
