------------------------------ MODULE PanicSafe ------------------------------
(***************************************************************************)
(* (A) for C16: the callback-taking algorithms of the collections as       *)
(* step-by-step machines, with a panic possible at every callback (the     *)
(* predicate, an element's destructor), and the guards that run while      *)
(* unwinding.  TLC explores every input, every outcome of every callback   *)
(* call and every panic point; when the call is over -- normally or by     *)
(* unwinding -- the container the caller still holds must be sound:        *)
(*   NoDuplicate        no element occurs twice in it;                     *)
(*   NothingDropped     it contains no destroyed element;                  *)
(*   NothingMovedOut    it contains no element already handed to the       *)
(*                      caller;                                            *)
(*   NoDoubleDrop       no destructor ran twice;                           *)
(*   NoLeakWithoutPanic if nothing panicked every element is in exactly    *)
(*                      one place;                                         *)
(*   ValidUtf8          (String::retain) the bytes are whole characters.   *)
(* Machines (transcribed from src/collections/vec.rs, string.rs):          *)
(*   "drain_filter"  DrainFilter::next / Drop with BackshiftOnDrop         *)
(*                   (Vec::retain is drain_filter with the predicate       *)
(*                   negated and every item dropped);                      *)
(*   "truncate"      Vec::truncate (also the tail of dedup_by, clear);     *)
(*   "str_retain"    String::retain with its SetLenOnDrop guard;           *)
(*   "dedup"         Vec::dedup_by = partition_dedup_by (swap-based, so    *)
(*                   the slice stays a permutation at every predicate      *)
(*                   call) followed by truncate.                           *)
(* Variant = "code" is the code as it is; the other variants are the       *)
(* pre-fix / seeded forms (configs *_bad expect a violation): they show    *)
(* that the laws have teeth and document why each guard is there.          *)
(***************************************************************************)
EXTENDS Integers, Sequences, FiniteSets, TLC

CONSTANTS N,        \* number of elements / characters
          Machine,  \* "drain_filter" | "truncate" | "str_retain" | "dedup"
          Variant   \* "code" | "no_backshift" | "drop_then_set_len" | "advance_first" | "copy_not_swap"

Ids == 1..N
Widths == {1, 2, 3}

VARIABLES
  buf,      \* physical slots: drain_filter / truncate: slot -> element id; str_retain: byte -> <<char, k>>
  vlen,     \* the container's length field
  idx, del, oldLen, pflag,
  pc,       \* "run" | "unwind" | "done"
  held,     \* elements handed to the caller
  drops,    \* id -> number of times its destructor ran
  take,     \* how many items the caller pulls before it drops the iterator (drain_filter)
  panicked,
  width     \* str_retain: char -> its width in bytes
vars == <<buf, vlen, idx, del, oldLen, pflag, pc, held, drops, take, panicked, width>>

Content == [i \in 1..vlen |-> buf[i]]
ContentSet == {buf[i] : i \in 1..vlen}

\* ------------------------------------------------------------ drain_filter
DFInit ==
  /\ buf = [i \in 1..N |-> i] /\ vlen = 0          \* set_len(0) up front: leak amplification
  /\ idx = 0 /\ del = 0 /\ oldLen = N /\ pflag = FALSE
  /\ take \in 0..N /\ held = {} /\ drops = [i \in Ids |-> 0]
  /\ pc = "run" /\ panicked = FALSE /\ width = [i \in Ids |-> 1]

\* one iteration of DrainFilter::next's loop; `consume` = the item goes to the caller (TRUE) or is dropped
\* by Drop's for_each(drop) (FALSE)
DFStep(consume) ==
  /\ idx # oldLen
  /\ \E outcome \in {"drain", "keep", "panic"} :
       LET i == idx + 1 IN
       CASE outcome = "panic" ->
              \* the predicate panics: panic_flag stays set, unwinding starts
              /\ pflag' = TRUE /\ panicked' = TRUE /\ pc' = "unwind"
              /\ UNCHANGED <<buf, vlen, idx, del, oldLen, held, drops, take, width>>
         [] outcome = "drain" ->
              /\ idx' = idx + 1 /\ del' = del + 1
              /\ IF consume THEN held' = held \cup {buf[i]} /\ UNCHANGED drops
                 ELSE drops' = [drops EXCEPT ![buf[i]] = @ + 1] /\ UNCHANGED held
              /\ UNCHANGED <<buf, vlen, oldLen, pflag, pc, take, panicked, width>>
         [] OTHER ->
              /\ idx' = idx + 1
              /\ buf' = IF del > 0 THEN [buf EXCEPT ![i - del] = buf[i]] ELSE buf
              /\ UNCHANGED <<vlen, del, oldLen, pflag, pc, held, drops, take, panicked, width>>

\* BackshiftOnDrop::drop
Backshift ==
  LET shift == IF Variant = "no_backshift" THEN FALSE ELSE idx < oldLen /\ del > 0
      nb == IF shift THEN [k \in 1..N |-> IF k > idx - del /\ k <= oldLen - del THEN buf[k + del] ELSE buf[k]] ELSE buf
  IN /\ buf' = nb /\ vlen' = oldLen - del /\ pc' = "done"
     /\ UNCHANGED <<idx, del, oldLen, pflag, held, drops, take, panicked, width>>

DFNext ==
  \/ /\ pc = "run" /\ Cardinality(held) < take /\ DFStep(TRUE)               \* the caller pulls an item
  \/ /\ pc = "run" /\ (Cardinality(held) >= take \/ idx = oldLen)            \* the caller drops the iterator:
     /\ IF idx # oldLen /\ ~pflag THEN DFStep(FALSE)                         \*   for_each(drop) ...
        ELSE Backshift                                                        \*   ... then the guard
  \/ /\ pc = "unwind" /\ Backshift                                           \* the guard runs while unwinding

\* ---------------------------------------------------------------- truncate
\* truncate(0) on N elements whose destructors may panic (once: a second panic while unwinding aborts)
TRInit ==
  /\ buf = [i \in 1..N |-> i] /\ vlen = N /\ idx = N /\ del = 0 /\ oldLen = N /\ pflag = FALSE
  /\ take = 0 /\ held = {} /\ drops = [i \in Ids |-> 0] /\ pc = "run" /\ panicked = FALSE
  /\ width = [i \in Ids |-> 1]

TRNext ==
  /\ pc = "run"
  /\ IF idx = 0 THEN /\ pc' = "done"
                     /\ vlen' = IF Variant = "drop_then_set_len" THEN 0 ELSE vlen
                     /\ UNCHANGED <<buf, idx, del, oldLen, pflag, held, drops, take, panicked, width>>
     ELSE \E dpanic \in {FALSE, TRUE} :
            /\ (dpanic => ~panicked)
            \* "code": the length is decremented before the destructor runs (SetLenOnDrop writes it back on
            \* every exit); "drop_then_set_len": destructors of the whole tail first, the length afterwards --
            \* and the slice drop glue keeps dropping the rest after one destructor panicked
            /\ drops' = [drops EXCEPT ![buf[idx]] = @ + 1]
            /\ idx' = idx - 1
            /\ vlen' = IF Variant = "drop_then_set_len" THEN vlen ELSE vlen - 1
            /\ panicked' = (panicked \/ dpanic)
            /\ pc' = IF dpanic /\ Variant # "drop_then_set_len" THEN "done" ELSE "run"
            /\ UNCHANGED <<buf, del, oldLen, pflag, held, take, width>>
\* (drop_then_set_len: after a destructor panic the glue drops the remaining elements and unwinds without
\*  ever reaching set_len; modelled by never updating vlen once panicked)
TRDone == pc = "run" /\ idx = 0 /\ Variant = "drop_then_set_len" /\ panicked
          /\ pc' = "done" /\ UNCHANGED <<buf, vlen, idx, del, oldLen, pflag, held, drops, take, panicked, width>>

\* -------------------------------------------------------------- str_retain
Bytes(w) == LET Rec[c \in 0..N] == IF c = 0 THEN <<>> ELSE Rec[c - 1] \o [k \in 1..w[c] |-> <<c, k>>] IN Rec[N]
SRInit ==
  /\ width \in [Ids -> Widths]
  /\ buf = Bytes(width) /\ vlen = Len(Bytes(width)) /\ oldLen = Len(Bytes(width))
  /\ idx = 0 /\ del = 0 /\ pflag = FALSE /\ take = 0 /\ held = {} /\ drops = [i \in Ids |-> 0]
  /\ pc = "run" /\ panicked = FALSE

SRNext ==
  /\ pc = "run"
  /\ IF idx >= oldLen
     THEN \* the loop is over: the guard's Drop sets the length
          /\ vlen' = idx - del /\ pc' = "done"
          /\ UNCHANGED <<buf, idx, del, oldLen, pflag, held, drops, take, panicked, width>>
     ELSE LET c == buf[idx + 1][1]
              w == width[c]
              from == idx
          IN \E outcome \in {"keep", "remove", "panic"} :
               CASE outcome = "panic" ->
                      \* f(ch) panics: the guard's Drop runs with the fields as they are now
                      /\ panicked' = TRUE /\ pc' = "done"
                      /\ vlen' = (IF Variant = "advance_first" THEN idx + w ELSE idx) - del
                      /\ UNCHANGED <<buf, idx, del, oldLen, pflag, held, drops, take, width>>
                 [] outcome = "remove" ->
                      /\ del' = del + w /\ idx' = idx + w
                      /\ UNCHANGED <<buf, vlen, oldLen, pflag, pc, held, drops, take, panicked, width>>
                 [] OTHER ->
                      /\ buf' = IF del > 0 THEN [k \in 1..Len(buf) |-> IF k > from - del /\ k <= from - del + w THEN buf[k + del] ELSE buf[k]]
                                ELSE buf
                      /\ idx' = idx + w
                      /\ UNCHANGED <<vlen, del, oldLen, pflag, pc, held, drops, take, panicked, width>>

\* -------------------------------------------------------------------- dedup
\* phase 1 (pflag = FALSE): partition_dedup_by with read index idx (0-based next_read) and write index del
\* (next_write); phase 2 (pflag = TRUE): truncate(next_write), destructors may panic.
DDInit ==
  /\ buf = [i \in 1..N |-> i] /\ vlen = N /\ oldLen = N
  /\ idx = 1 /\ del = 1 /\ pflag = FALSE /\ take = 0 /\ held = {} /\ drops = [i \in Ids |-> 0]
  /\ pc = "run" /\ panicked = FALSE /\ width = [i \in Ids |-> 1]

DDNext ==
  /\ pc = "run"
  /\ IF ~pflag
     THEN IF N <= 1 \/ idx >= oldLen
          THEN \* partition done: truncate(next_write) starts at the end of the vector
               /\ pflag' = TRUE /\ idx' = vlen
               /\ UNCHANGED <<buf, vlen, del, oldLen, pc, held, drops, take, panicked, width>>
          ELSE \E outcome \in {"same", "different", "panic"} :
                 CASE outcome = "panic" ->
                        \* same_bucket panics: no guard, the vector keeps its length
                        /\ panicked' = TRUE /\ pc' = "done"
                        /\ UNCHANGED <<buf, vlen, idx, del, oldLen, pflag, held, drops, take, width>>
                   [] outcome = "same" ->
                        /\ idx' = idx + 1
                        /\ UNCHANGED <<buf, vlen, del, oldLen, pflag, pc, held, drops, take, panicked, width>>
                   [] OTHER ->
                        /\ buf' = IF idx # del
                                  THEN IF Variant = "copy_not_swap" THEN [buf EXCEPT ![del + 1] = buf[idx + 1]]
                                       ELSE [buf EXCEPT ![del + 1] = buf[idx + 1], ![idx + 1] = buf[del + 1]]
                                  ELSE buf
                        /\ del' = del + 1 /\ idx' = idx + 1
                        /\ UNCHANGED <<vlen, oldLen, pflag, pc, held, drops, take, panicked, width>>
     ELSE \* truncate(del): as the "truncate" machine, down to del elements
          IF idx <= del \/ N <= 1 THEN pc' = "done" /\ UNCHANGED <<buf, vlen, idx, del, oldLen, pflag, held, drops, take, panicked, width>>
          ELSE \E dpanic \in {FALSE, TRUE} :
                 /\ (dpanic => ~panicked)
                 /\ drops' = [drops EXCEPT ![buf[idx]] = @ + 1]
                 /\ idx' = idx - 1 /\ vlen' = vlen - 1
                 /\ panicked' = (panicked \/ dpanic)
                 /\ pc' = IF dpanic THEN "done" ELSE "run"
                 /\ UNCHANGED <<buf, del, oldLen, pflag, held, take, width>>

\* ------------------------------------------------------------------ spec
Init == CASE Machine = "drain_filter" -> DFInit [] Machine = "truncate" -> TRInit [] Machine = "dedup" -> DDInit [] OTHER -> SRInit
Next == CASE Machine = "drain_filter" -> DFNext [] Machine = "truncate" -> (TRNext \/ TRDone) [] Machine = "dedup" -> DDNext [] OTHER -> SRNext
Spec == Init /\ [][Next]_vars

\* ------------------------------------------------------------------ laws (when the call is over)
Over == pc = "done"
ElemMachine == Machine \in {"drain_filter", "truncate", "dedup"}
NoDuplicate == (Over /\ ElemMachine) => Cardinality(ContentSet) = vlen
NothingDropped == (Over /\ ElemMachine) => \A i \in 1..vlen : drops[buf[i]] = 0
NothingMovedOut == (Over /\ ElemMachine) => ContentSet \cap held = {}
NoDoubleDrop == \A i \in Ids : drops[i] <= 1
NoLeakWithoutPanic ==
  (Over /\ ElemMachine /\ ~panicked) => \A i \in Ids : (IF i \in ContentSet THEN 1 ELSE 0) + (IF i \in held THEN 1 ELSE 0) + drops[i] = 1
\* whole characters, each byte in its place
ValidUtf8 ==
  (Over /\ Machine = "str_retain") =>
     \A k \in 1..vlen :
        LET b == buf[k] IN
        /\ (b[2] = 1 => k + width[b[1]] - 1 <= vlen)
        /\ (b[2] > 1 => k > 1 /\ buf[k - 1] = <<b[1], b[2] - 1>>)
        /\ (b[2] < width[b[1]] => k < vlen /\ buf[k + 1] = <<b[1], b[2] + 1>>)
=============================================================================
