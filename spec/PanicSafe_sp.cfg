SPECIFICATION Spec
CHECK_DEADLOCK FALSE
CONSTANTS
  N = 3
  Machine = "splice"
  Variant = "code"
INVARIANTS
  NoDuplicate
  NothingDropped
  NothingMovedOut
  NoDoubleDrop
  SpliceResult
  SpliceAfterPanic
