-------------------------------- MODULE Sizes --------------------------------
(***************************************************************************)
(* C19: impossible sizes are refused, never wrapped.  Trace specification  *)
(* over the boundary-size driver's events; numbers are Big!digits.         *)
(*   Unrepresentable(e): the request cannot be represented or satisfied:   *)
(*     count * element size > isize::MAX (slices, capacities),             *)
(*     len + additional > usize::MAX (reserve on vectors and strings).     *)
(*   Then the outcome must be err (fallible) or panic (infallible), never  *)
(*   ok; and every ok outcome must claim no more bytes than the arena      *)
(*   really holds at the returned address.                                 *)
(***************************************************************************)
EXTENDS Big, TLC, Json, IOUtils

Rec == ndJsonDeserialize(IOEnv.TRACE)
VARIABLE l

Chk(prop, name, cond, wit) ==
  IF cond THEN TRUE ELSE PrintT(<<"PROPFAIL", prop, name, l, <<Rec[l].p, Rec[l].i, Rec[l].op, Rec[l].ma>>, wit>>)

VecOps == {"vec_reserve", "vec_reserve_exact", "vec_try_reserve", "vec_try_reserve_exact",
           "string_reserve", "string_reserve_exact", "vec_extend_from_slices_copy", "vec_zst_push_beyond_max"}

\* total element count the call must make room for
Total(e) == IF e.op \in VecOps /\ e.op \notin {"vec_extend_from_slices_copy", "vec_zst_push_beyond_max"} THEN Add(e.len0, e.n) ELSE e.n
Bytes(e) == MulSmall(Total(e), e.es)
Unrepresentable(e) ==
  \/ Lt(UMAX, Total(e))                      \* the count itself does not fit a usize
  \/ (e.es > 0 /\ Lt(IMAX, Bytes(e)))        \* more than isize::MAX bytes
  \* an arena / raw layout of n bytes aligned to `align`: n rounded up must stay within isize::MAX
  \/ (e.op \in {"with_capacity", "try_with_capacity"} /\ Lt(IMAX, Add(e.n, FromInt(e.align - 1))))

Step ==
  /\ l <= Len(Rec)
  /\ LET e == Rec[l] IN
     /\ Chk("C19", "UnrepresentableRequestRefused", Unrepresentable(e) => e.res \in {"err", "panic"},
            <<e.es, e.n, e.len0, e.res, e.cap>>)
     /\ Chk("C19", "FallibleReturnsErrInfallibleMayPanic", (e.fall = 1) => e.res # "panic", <<e.res, e.msg>>)
     /\ Chk("C19", "ClaimedExtentReallyHeld",
            (e.res = "ok" /\ e.es > 0) => Leq(MulSmall(e.cap, e.es), e.room), <<e.es, e.cap, e.room>>)
     /\ Chk("C19", "ClaimAtLeastRequested",
            (e.res = "ok" /\ e.op \notin {"vec_extend_from_slices_copy", "vec_zst_push_beyond_max"}) => Leq(Total(e), e.cap),
            <<Total(e), e.cap>>)
     /\ Chk("C19", "LengthNeverWraps",
            (e.res = "ok" /\ e.op \in {"vec_extend_from_slices_copy", "vec_zst_push_beyond_max"}) => Cmp(e.cap, Total(e)) = 0,
            <<Total(e), e.cap>>)
     /\ Chk("C19", "NonNull", e.nonnull = 1, e.op)
  /\ l' = l + 1

Init == l = 1
Spec == Init /\ [][Step]_l
Accepted ==
  IF TLCGet("stats").diameter - 1 = Len(Rec) THEN PrintT(<<"ACCEPTED", Len(Rec)>>)
  ELSE PrintT(<<"REJECTED at", TLCGet("stats").diameter, Len(Rec)>>) /\ FALSE
=============================================================================
