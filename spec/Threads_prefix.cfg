SPECIFICATION Spec
CHECK_DEADLOCK FALSE
CONSTANTS
  Thr = {1, 2}
  Arenas = {"A", "B"}
  MaxOps = 3
  MaxHandOvers = 1
  SkipRedundantStore = FALSE
INVARIANTS
  NoRace
  Frame
  SentinelNeverWritten
