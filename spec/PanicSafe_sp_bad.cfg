SPECIFICATION Spec
CHECK_DEADLOCK FALSE
CONSTANTS
  N = 3
  Machine = "splice"
  Variant = "leftover_still_owned"
INVARIANTS
  NoDuplicate
  NothingDropped
  NothingMovedOut
  NoDoubleDrop
  SpliceResult
  SpliceAfterPanic
