HOOK_COMMITS = ["0bea7592e7ca130e79f040da91a210706bd9be53", "dee1b387cf1964a8c1dce82099415afaf636e7dc",
                "8ee5c5c35694b7aaa8016d78160c09640b41b008", "5c5f834dda4fedee8ecacda820a2bde68a51dfb4"]
NOTES = ("Model-based verification with explicit TLA+ specifications (spec/*.tla). (A) TLC model checking of the "
         "implementation-shaped specs, (B) traces recorded from the real crate validated by TLC against a property-level "
         "monitor and an implementation-level strict trace spec, (B') the same specs over API-level traces emitted by cfg(bumpalo_verif) hooks in the crate: the repository's own test suite and every collection/string program seen at arena level, "
         "(C) TLC-generated behaviours (one per model state x model branch) replayed on the crate; the oracles themselves are model-checked (CollModel, StrModel, PanicSafe), "
         "the fast-path arithmetic is lifted to unbounded integers with Apalache (FastPathInd). "
         "See DESIGN.md. known_findings.json lists genuine defects (all repaired by fix: commits so far).")
ENGINES = [
    dict(name="tlc-arena", path="spec/ArenaCore.tla spec/Arena.tla spec/ArenaMonitor.tla spec/ArenaTrace.tla",
         serves_properties=["C01", "C02", "C03", "C04", "C06", "C07", "C08", "C09", "C10", "C11", "C12", "C18"],
         kind_free_text="TLA+ spec of the arena; TLC exhaustive small-scope checking; trace validation (Monitor = property level, Trace = implementation level)"),
    dict(name="apalache-fastpath", path="spec/FastPathInd.tla spec/FastPathEquiv.tla lib/vcheck/apalache.py", serves_properties=["C01", "C04"],
         kind_free_text="Apalache (symbolic, unbounded integers) inductive-invariant check of the bump-pointer arithmetic of one chunk"),
    dict(name="harness", path="harness/", serves_properties=["C01", "C02", "C03", "C04", "C06", "C07", "C08", "C09", "C10", "C11", "C12", "C18"],
         kind_free_text="Rust drivers over the real crate with a recording/fault-injecting #[global_allocator]; emit ndjson traces"),
]
_ARENA_NOTE = ("Trusted: TLC + Json/IOUtils modules; the harness's recording global allocator (deterministic address map, "
               "never really frees); small-scope hypothesis for the exhaustive model run. Verdicts come only from states "
               "reconstructed from real executions (ArenaMonitor); ArenaTrace ties the code to the model (drift is reported, not failed).")
def _arena(text, ref):
    return dict(category="model_checking", text=text, design_ref=ref, note=_ARENA_NOTE,
                technique="TLA+ spec + TLC model checking + TLC trace validation of recorded executions")
CHECKS = {
    "C01": _arena("Arena.tla checked exhaustively by TLC at small scope (InBounds, Disjoint, LiveAboveFinger, per-step obligations); every event of enumerated/random histories on the real crate (all MIN_ALIGN, dbg+rel) validated by ArenaMonitor (inside held memory below the footer, disjoint from all live blocks) and explained step by step by ArenaTrace. Unbounded integers: FastPathInd.tla's inductive invariant (block inside the chunk, above the new finger, aligned; finger MIN_ALIGN-aligned) discharged by Apalache action by action (quick: base case, Reset, DeallocLast; thorough: also ShrinkLast and Alloc/GrowLast per alignment 1..4096), its formula tied to ArenaCore!FastAddr by FastPathEquiv.tla (TLC).", "6/C01"),
    "C02": _arena("Shadow copy of every live block re-verified after every operation and asserted per event by ArenaMonitor (LiveBlocksIntact, ReadsBackWhatWasSupplied, InitialiserCalledOncePerElementInOrder, GrowShrinkKeepPrefix); copy ranges of shrink/grow checked for overlap in Arena.tla.", "6/C02"),
    "C03": _arena("Ledger rebuilt solely from calls reaching the #[global_allocator]; ArenaMonitor checks free-matches-held-layout, frees only in reset/drop, nothing held after drop, no acquisition outside allocation, failure keeps held memory; Arena.tla invariant HeapIsChunks.", "6/C03"),
    "C04": _arena("Every returned address checked modulo requested and minimum alignment (addresses preserved modulo 4096 by the recorder, minimal-alignment chunk placement); offset enumerator over finger residues x sizes x aligns 1..4096 x MIN_ALIGN; invalid MIN_ALIGN constructors must panic; Arena.tla FingerInv incl. the sentinel; FastPathInd.tla (Apalache, unbounded integers) as for C01.", "6/C04"),
    "C06": _arena("ArenaMonitor formulas on every reset event (nothing allocated, at most one block, full capacity, limit kept, no-op on empty) plus capacity probes that must not reach the global allocator; Arena.tla ResetOp obligations.", "6/C06"),
    "C07": _arena("On every granted chunk while a limit is set the usable bytes held (from the ledger, not the crate's counter) must not exceed the limit; requests fitting the current chunk must succeed whatever the limit; Arena.tla C07 obligations with SetLimit at every point.", "6/C07"),
    "C08": _arena("allocated_bytes_including_metadata = sum of held block sizes and allocated_bytes = that minus n x observed footer size, on every event of every trace; unchanged unless the ledger changed; Arena.tla Accounting invariant.", "6/C08"),
    "C09": _arena("Fallible methods never panic/hang, Err changes nothing (ledger, chunk snapshot, capacity, accounting) on every event, with global-allocator refusals injected; retry loop termination as a model obligation (fuel) in Arena.tla.", "6/C09"),
    "C10": _arena("Iterator items compared with the ledger and the chunk snapshot on every iter event (safe = raw, one slice per held block newest first, within the block below the footer, each live block in exactly one slice); uniform histories: slices are exactly the objects.", "6/C10"),
    "C11": _arena("Initialiser not run without space, error token delivered exactly once (drop ledger), failed slot reusable (follow-up request of the same layout performs no global-allocator call); Arena.tla TryWithOp/TryFillFail obligations at every capacity incl. the new-chunk rewind branch.", "6/C11"),
    "C12": _arena("allocate/grow/grow_zeroed/shrink/deallocate through allocator_api2::Allocator for &Bump<M>: results fit the new layout, prefix preserved, zeroed tail, disjoint from live blocks, error leaves old block; Arena.tla GrowOp/ShrinkOp/DeallocOp on several live blocks.", "6/C12"),
    "C18": _arena("Requested capacity honoured, chunk_capacity never overstates what can be served without the global allocator (checked on every allocation event), each new chunk at least double the previous unless limit/refusal/size forbid.", "6/C18"),
}
_COLL_NOTE = ("Trusted: TLC + Json/IOUtils; the reference semantics Coll.tla, which is itself validated against std::vec::Vec / "
              "std::boxed::Box on every program (a disagreement of the std half is reported as a tool error, never as a violation); "
              "the Tracked element's drop ledger in the harness. Bounded: vectors of length <= 4-6, all index/range arguments incl. usize::MAX.")
def _coll(text, ref):
    return dict(category="model_checking", text=text, design_ref=ref, note=_COLL_NOTE,
                technique="TLA+ reference semantics + TLC trace validation of twin (bumpalo/std) executions")
CHECKS.update({
    "C13": _coll("(A) CollModel.tla: the reference semantics Coll!Sem model-checked as a state machine (conservation of elements, no aliasing, panic atomicity, length laws; complete, 28k states). (B) Every program is executed on bumpalo::collections::Vec<Tracked> and on std::vec::Vec<Tracked>; TLC validates both traces against Coll!Sem (return values, contents with element identity, panic/no-panic, capacity >= length and >= promised, neighbours/canaries undisturbed): all operations x all index/range arguments (incl. usize::MAX, every range form) on lengths 0..3(4), all pairs over a reduced alphabet, seeded random programs over two vectors/boxes; dbg and rel.", "6/C13"),
    "C15": _coll("Unique-id drop ledger per call; CollTrace checks NoDoubleDrop, DropsExactlyWhatTheCallLetsGo (Coll!Sem's drop set), conservation EveryElementAccountedForExactlyOnce (before + created = after + dropped + specified leaks, pairwise disjoint) on every call of every program, incl. partially consumed / leaked iterators and conversions; quiescence at program end.", "6/C15"),
    "C16": _coll("(A) PanicSafe.tla: DrainFilter/retain, truncate and String::retain as step machines with a panic at every callback and their unwinding guards, checked completely (code variants hold; pre-fix and seeded variants are refuted on every run). (B) Panic-point enumerator: for every callback-calling operation, every callback index (predicate, key fn, Clone, Drop, iterator step) as the panic point, with and without follow-up use; after unwinding CollTrace requires: no id dropped twice (now or later), no dropped/moved-out id reachable in any container, no duplicate ids, caller-held values not dropped; leaks allowed.", "6/C16"),
    "C17": _coll("Box programs (new_in, drop, into_inner, leak, into_raw/from_raw round trip, from_iter_in, Vec->boxed slice, Debug forwarding) on bumpalo and std Box twins validated against Coll!Sem; BoxDropReleasesNoMemory checks that no global-allocator free and no accounting change happens at Box drop.", "6/C17"),
})
CHECKS["C19"] = dict(category="model_checking", design_ref="6/C19",
    text=("(A) SizesModel.tla transcribes the code's size arithmetic operation by operation (checked_add/checked_mul/unchecked ops as written: round_up_to, "
          "Layout::array, RawVec::allocate_in, amortized_new_size, reserve_internal, the fast path's size rounding, the slice total of extend_from_slices_copy) "
          "over an 8-bit word and TLC checks for ALL inputs that a request is granted only if representable and what is granted covers the request. "
          "(B) sizes_driver issues ~1900 boundary requests at the real 64-bit boundaries (usize::MAX, usize::MAX/size +-1, isize::MAX +-1, isize::MAX rounded by "
          "alignment) x element sizes {0,1,3,8,4096} x every size-taking entry point of Bump, Vec, String x MIN_ALIGN, in dbg and rel; Sizes.tla (with Big.tla "
          "bignum digits) requires unrepresentable => err/panic, fallible => never panic, ok => claimed extent really held in arena memory, lengths never wrap."),
    note=("Trusted: TLC; Big.tla; the hand transcription in SizesModel.tla. Huge-but-representable requests legitimately fail for lack of memory; "
          "the oracle forbids only success with too little memory, wrong lengths, and panics from fallible methods."),
    technique="TLA+ small-word arithmetic model (TLC exhaustive) + TLC trace validation of boundary requests with bignum arithmetic")
ENGINES.append(dict(name="tlc-sizes", path="spec/SizesModel.tla spec/Sizes.tla spec/Big.tla", serves_properties=["C19"],
    kind_free_text="TLA+ word-size arithmetic model; bignum trace oracle for 64-bit boundary requests"))
CHECKS["C20"] = dict(category="model_checking", design_ref="6/C20",
    text=("(A) Threads.tla: threads x arenas with memory-access-level interleaving, vector-clock happens-before, invariants NoRace, Frame and "
          "SentinelNeverWritten checked exhaustively by TLC (2 threads, 2 arenas, 3 calls each, one hand-over). (B) multi_driver runs pairs of arena programs "
          "in every order-preserving interleaving on one thread, on two to four concurrent threads, and with hand-over to a helper thread; each arena's projection "
          "of the execution is validated by the single-arena specs ArenaMonitor and ArenaTrace (so each arena's results, placement and accounting are explained by "
          "its own history alone), and the synchronisation log (spawn/join edges + every footer store from the hook) is validated by ThreadsTrace.tla, a "
          "vector-clock race detector."),
    note=("Trusted: TLC; the footer-store hook; per-thread recorder slices. Only crate-level shared state is covered (the code has exactly one such location); "
          "races inside the global allocator or introduced by the compiler are outside the model; reads are not hooked (write-write races only in (B), read-write in (A))."),
    technique="TLA+ model with vector clocks (TLC exhaustive) + TLC trace validation of per-arena projections and of the store/synchronisation log")
ENGINES.append(dict(name="tlc-threads", path="spec/Threads.tla spec/ThreadsTrace.tla", serves_properties=["C20"],
    kind_free_text="TLA+ model of threads/arenas/sentinel with vector clocks; trace-level race detector over hook events"))
CHECKS["C05"] = dict(category="model_checking", design_ref="6/C05",
    text=("Borrow.tla is a typestate model of client programs (statements: create a token of each arena-lifetime-carrying kind, use/drop it, reset, "
          "iter_allocated_chunks, allocate more, drop/move the arena, share it with / send it to a scoped thread, send/share a token). TLC enumerates every program "
          "up to 3 statements over 2 tokens (3.9k quick, all 13 token kinds thorough), checks the model's own sanity invariants and emits accept/reject per program; "
          "each program is rendered to Rust against the real API and compiled with rustc against the rlib built from the working tree; verdicts must agree in both "
          "directions (misuse rejected, ordinary patterns accepted)."),
    note=("Trusted: rustc as the executor; the rendering of statements to Rust (lib/vcheck/borrow.py). Decides the enumerated family, not all Rust programs. "
          "Sync-ness of iterator types without shared-reference methods reaching the arena is deliberately not judged."),
    technique="TLA+ typestate model enumerated by TLC + conformance of rustc verdicts on generated probe programs")
ENGINES.append(dict(name="tlc-borrow", path="spec/Borrow.tla lib/vcheck/borrow.py", serves_properties=["C05"],
    kind_free_text="TLA+ typestate model of borrow/move/thread rules; TLC enumerates programs; rustc compiles the rendered probes"))
CHECKS["C14"] = dict(category="model_checking", design_ref="6/C14",
    text=("(A) StrModel.tla: laws of the reference semantics checked by TLC over all inputs of a small scope (decoder round trip / scalar values / error position on 168k byte strings, panic-iff-not-a-boundary and length arithmetic for every index and range form). "
          "(B) Every program runs on bumpalo::collections::String and std::string::String; TLC validates both traces against Str!Sem: text, return values, "
          "panic/no-panic for every byte index (boundary or not) and every range form incl. usize::MAX over texts of 1-4-byte chars, valid UTF-8 after every call, "
          "capacity; decoders from_utf8 / from_utf8_lossy_in / from_utf16_in against TLA+ transcriptions of Unicode Table 3-7 (maximal subparts) and surrogate pairing "
          "on all class-representative byte strings up to length 3 (4 thorough), structured corruptions and random ones."),
    note=("Trusted: TLC + Json/IOUtils; Str.tla (validated against std on every program and input: a std disagreement is a tool error). "
          "Bounded texts (<= 3 chars + appended), decoder inputs by byte class."),
    technique="TLA+ reference semantics + transcribed decoders + TLC trace validation of twin (bumpalo/std) executions")
ENGINES.append(dict(name="tlc-str", path="spec/Str.tla spec/StrTrace.tla spec/StrModel.tla", serves_properties=["C14", "C16"],
    kind_free_text="TLA+ reference semantics of String and of the UTF-8/UTF-16 decoders; TLC trace validation of twin executions"))
ENGINES.append(dict(name="tlc-coll", path="spec/Coll.tla spec/CollTrace.tla spec/CollModel.tla spec/PanicSafe.tla", serves_properties=["C13", "C15", "C16", "C17"],
    kind_free_text="TLA+ reference semantics of Vec/Box over element identities; TLC trace validation of twin executions"))
NOT_APPLICABLE = {}
