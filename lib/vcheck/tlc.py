import os, re, shutil, json, time
from .common import *

JAVA_TRACE_OPTS = "-Xss1g -Xmx3g -Dtlc2.tool.queue.IStateQueue=StateDeque"

# ---------------------------------------------------------------- value parser
_REC = re.compile(r"([A-Za-z_0-9]+)\s*\|->")
_ATOM = re.compile(r"-?\d+|TRUE|FALSE|[A-Za-z_][A-Za-z_0-9]*")

class _P:
    def __init__(self, s):
        self.s = s
        self.i = 0
    def ws(self):
        while self.i < len(self.s) and self.s[self.i] in " \t\r\n":
            self.i += 1
    def peek(self, n=1):
        return self.s[self.i:self.i + n]
    def value(self):
        self.ws()
        if self.peek(2) == "<<":
            self.i += 2
            out = []
            while True:
                self.ws()
                if self.peek(2) == ">>":
                    self.i += 2
                    return out
                out.append(self.value())
                self.ws()
                if self.peek() == ",":
                    self.i += 1
        if self.peek() == "{":
            self.i += 1
            out = []
            while True:
                self.ws()
                if self.peek() == "}":
                    self.i += 1
                    return {"set": out}
                out.append(self.value())
                self.ws()
                if self.peek() == ",":
                    self.i += 1
        if self.peek() == "[":
            self.i += 1
            out = {}
            while True:
                self.ws()
                if self.peek() == "]":
                    self.i += 1
                    return out
                m = _REC.match(self.s, self.i)
                if not m:
                    raise ValueError("bad record at %d: %r" % (self.i, self.s[self.i:self.i + 40]))
                self.i = m.end()
                out[m.group(1)] = self.value()
                self.ws()
                if self.peek() == ",":
                    self.i += 1
        if self.peek() == '"':
            j = self.i + 1
            buf = []
            while self.s[j] != '"':
                if self.s[j] == "\\":
                    j += 1
                buf.append(self.s[j])
                j += 1
            self.i = j + 1
            return "".join(buf)
        m = _ATOM.match(self.s, self.i)
        if not m:
            raise ValueError("bad value at %d: %r" % (self.i, self.s[self.i:self.i + 40]))
        self.i = m.end()
        t = m.group(0)
        if t == "TRUE":
            return True
        if t == "FALSE":
            return False
        try:
            return int(t)
        except ValueError:
            return t

def parse_value(s):
    return _P(s).value()

def extract_tuples(out, tag):
    """all values printed by PrintT(<<tag, ...>>) in TLC output (linear in the size of the output)"""
    res = []
    pat = re.compile(r'<<\s*"%s"' % re.escape(tag))
    i = 0
    p = _P(out)
    while True:
        m = pat.search(out, i)
        if not m:
            break
        p.i = m.start()
        try:
            v = p.value()
            res.append(v)
            i = p.i
        except Exception:
            i = m.start() + 2
    return res

def _stats(out):
    m = re.search(r"(\d+) states generated, (\d+) distinct states found", out)
    gen, dist = (int(m.group(1)), int(m.group(2))) if m else (0, 0)
    return gen, dist

# ---------------------------------------------------------------- trace validation
def validate_trace(module, trace, tag="PROPFAIL", timeout=1800, env_extra=None):
    """Run TLC on a trace spec (module.tla + module.cfg in SPEC). Returns dict."""
    ensure_dirs()
    meta = os.path.join(WORK, "tlc", "%s-%d-%d" % (module, os.getpid(), abs(hash(trace)) % 10**9))
    os.makedirs(meta, exist_ok=True)
    env = {"JAVA_TOOL_OPTIONS": JAVA_TRACE_OPTS, "TRACE": trace}
    if env_extra:
        env.update(env_extra)
    cmd = ["timeout", str(timeout), "tlc", "-workers", "1", "-metadir", meta, "-cleanup", "-noGenerateSpecTE",
           "-config", os.path.join(SPEC, module + ".cfg"), os.path.join(SPEC, module + ".tla")]
    rc, out, dt = run(cmd, cwd=meta, env=env)
    shutil.rmtree(meta, ignore_errors=True)
    gen, dist = _stats(out)
    accepted = '"ACCEPTED"' in out
    rejected = extract_tuples(out, "REJECTED at")
    fails = extract_tuples(out, tag)
    drift = extract_tuples(out, "DRIFT")
    specfail = extract_tuples(out, "SPECFAIL")
    tool_error = None
    if not accepted and not rejected:
        tool_error = out[-3000:]
    return dict(module=module, trace=trace, rc=rc, wall=dt, generated=gen, distinct=dist, accepted=accepted,
                rejected=rejected, fails=fails, drift=drift, specfail=specfail, tool_error=tool_error, out_tail=out[-1500:] if (rc != 0 and not fails) else "")

# ---------------------------------------------------------------- model checking
def model_check(module, cfg, workers=8, timeout=3600, simulate=None, depth=None, extra=None, mem="8g", tags=(), bounded=False):
    ensure_dirs()
    meta = os.path.join(WORK, "tlc", "mc-%s-%d" % (cfg, os.getpid()))
    os.makedirs(meta, exist_ok=True)
    env = {"JAVA_TOOL_OPTIONS": "-Xss64m -Xmx%s" % mem}
    cmd = ["timeout", str(timeout), "tlc", "-workers", str(workers), "-metadir", meta, "-cleanup", "-noGenerateSpecTE",
           "-config", os.path.join(SPEC, cfg + ".cfg")]
    # NB: no "-coverage 1": on Arena.tla TLC's coverage instrumentation hangs at "Starting..." and runs out of memory
    if simulate:
        cmd += ["-simulate", "num=%d" % simulate]
    if depth:
        cmd += ["-depth", str(depth)]
    if extra:
        cmd += extra
    cmd.append(os.path.join(SPEC, module + ".tla"))
    rc, out, dt = run(cmd, cwd=meta, env=env)
    shutil.rmtree(meta, ignore_errors=True)
    gen, dist = _stats(out)
    complete = "Model checking completed" in out
    if not complete:
        # time-bounded breadth-first exploration: take the last progress line
        pm = re.findall(r"Progress\((\d+)\).*?: ([\d,]+) states generated.*?, ([\d,]+) distinct states found", out)
        if pm:
            gen, dist = int(pm[-1][1].replace(",", "")), int(pm[-1][2].replace(",", ""))
    violated = None
    m = re.search(r"Error: (Invariant (\S+) is violated|Action property (\S+) is violated|Temporal properties were violated|Deadlock reached)", out)
    if m:
        violated = m.group(2) or m.group(3) or m.group(1)
    finished = "Model checking completed" in out or "Finished in" in out
    # per-action coverage: lines "<Action line .. of module M>: distinct:generated"
    cov = {}
    for mm in re.finditer(r"<(\w+) line \d+, col \d+ to line \d+, col \d+ of module (\w+)>: (\d+):(\d+)", out):
        cov[mm.group(1)] = cov.get(mm.group(1), 0) + int(mm.group(4))
    printed = {t: extract_tuples(out, t) for t in tags}
    err = None
    if rc == 124 and bounded and not violated and dist > 0:
        err = None
    elif rc == 124:
        err = "timeout"
    elif rc != 0 and not violated:
        err = out[-3000:]
    depthm = re.search(r"The depth of the complete state graph search is (\d+)", out) or (re.findall(r"Progress\((\d+)\)", out) and re.search(r"(\d+)", re.findall(r"Progress\((\d+)\)", out)[-1]))
    return dict(module=module, cfg=cfg, rc=rc, wall=dt, generated=gen, distinct=dist, violated=violated,
                coverage=cov, error=err, printed=printed, complete=complete, diameter=int(depthm.group(1)) if depthm else None,
                trace=_extract_cex(out) if violated else None, out_tail=out[-2500:] if (violated or err) else "")

def _extract_cex(out):
    i = out.find("Error:")
    return out[i:i + 6000] if i >= 0 else ""
