"""Which model-check configs, trace jobs and special jobs decide which property."""
from .common import *

ARENA_PROPS = ["C01", "C02", "C03", "C04", "C06", "C07", "C08", "C09", "C10", "C11", "C12", "C18"]
CRASH_IS_VIOLATION = {"C01", "C02", "C03", "C09", "C12", "C13", "C15", "C16"}

def tj(driver, gen, tier, profile, seed, nshards, monitors, features=None, **kw):
    return [dict(driver=driver, gen=gen, tier=tier, profile=profile, seed=seed, shard=i, nshards=nshards,
                 monitors=monitors, features=features, **kw) for i in range(nshards)]

def arena_corpus(tier, seed, gens, profiles=("dbg", "rel")):
    jobs = []
    for g in gens:
        for prof in profiles:
            n = {"quick": 2, "thorough": 8}[tier]
            jobs += tj("arena_driver", g, tier, prof, seed, n, ["ArenaMonitor", "ArenaTrace"])
    return jobs

ARENA_GENS = {
    "C01": ["history", "offset", "random"],
    "C02": ["history", "random"],
    "C03": ["history", "random"],
    "C04": ["offset", "history"],
    "C06": ["history", "random"],
    "C07": ["history", "random"],
    "C08": ["history", "random"],
    "C09": ["history", "random"],
    "C10": ["history", "random"],
    "C11": ["history", "random"],
    "C12": ["history", "random"],
    "C18": ["history", "random"],
}

COLL_GENS = {
    "C13": ["single", "pairs", "random"],
    "C15": ["single", "pairs", "random"],
    "C16": ["panics", "random-panics"],
    "C17": ["single", "pairs", "random"],
}

def coll_corpus(tier, seed, gens, profiles=("dbg", "rel")):
    jobs = []
    for g in gens:
        for prof in profiles:
            n = {"quick": 2, "thorough": 6}[tier]
            jobs += tj("coll_driver", g, tier, prof, seed, n, ["CollTrace"], max_events=25000)
    return jobs

def str_corpus(tier, seed, gens, profiles=("dbg", "rel")):
    jobs = []
    for g in gens:
        for prof in profiles:
            n = {"quick": 2, "thorough": 6}[tier]
            if g == "sops":
                n *= 3
            jobs += tj("str_driver", g, tier, prof, seed, n, ["StrTrace"], max_events=25000)
    return jobs

def plan_for(pid, tier, seed):
    if pid == "C05":
        from . import borrow
        return dict(level="model_checking", mc=[], traces=[], special=[borrow.run_c05],
                    assumptions=["rustc's verdict (the executor for compile-time properties)",
                                 "Borrow.tla's statement language: the family of programs of <= 3 statements over <= 2 tokens of every kind"])
    if pid == "C19":
        jobs = []
        for prof in ("dbg", "rel"):
            jobs += tj("sizes_driver", "boundaries", tier, prof, seed, 1, ["Sizes"])
        return dict(level="model_checking", traces=jobs, special=[],
                    mc=[dict(module="SizesModel", cfg="SizesModel", workers=4, timeout=600)],
                    assumptions=["TLC; Big.tla digit arithmetic (TLC integers are 32-bit)",
                                 "SizesModel.tla: the code's checked/unchecked operations transcribed by hand, for an 8-bit word"])
    if pid == "C20":
        jobs = []
        for prof in ("dbg", "rel"):
            jobs += tj("multi_driver", "multi", tier, prof, seed, 2 if tier == "quick" else 4, ["ArenaMonitor", "ArenaTrace"],
                       monitors_sync=["ThreadsTrace"])
        return dict(level="model_checking", traces=jobs, special=[],
                    mc=[dict(module="Threads", cfg="Threads", workers=8, timeout=900)],
                    assumptions=["TLC", "footer-store hook (__verif::footer_store) sees every store into a chunk footer",
                                 "data races only on crate-level shared state (chunk footers, the static empty chunk); reads are not hooked"])
    if pid == "C14":
        return dict(level="model_checking", mc=[], traces=str_corpus(tier, seed, ["sops", "decoders", "srandom"]), special=[],
                    assumptions=["TLC and the Json/IOUtils community modules",
                                 "the reference semantics Str.tla incl. the transcribed UTF-8/UTF-16 decoders (cross-validated against std on every input)"])
    if pid == "C16":
        return dict(level="model_checking", mc=[], special=[],
                    traces=coll_corpus(tier, seed, COLL_GENS[pid]) + str_corpus(tier, seed, ["spanics", "srandom"]),
                    assumptions=["TLC and the Json/IOUtils community modules", "Coll.tla / Str.tla reference semantics (cross-validated against std)",
                                 "exactly one programmed panic per call (a second panic while unwinding aborts; outside the property)"])
    if pid in COLL_GENS:
        return dict(level="model_checking", mc=[], traces=coll_corpus(tier, seed, COLL_GENS[pid]), special=[],
                    assumptions=["TLC and the Json/IOUtils community modules",
                                 "the reference semantics Coll.tla (cross-validated: the same formulas accept std's own Vec/Box on the same programs)",
                                 "Tracked elements' drop ledger (harness)"])
    if pid in ARENA_PROPS:
        return dict(level="model_checking", mc=[], traces=arena_corpus(tier, seed, ARENA_GENS[pid]), special=[],
                    assumptions=["TLC and the Json/IOUtils community modules",
                                 "the harness's recording global allocator (deterministic address map)",
                                 "small-scope hypothesis for the exhaustive model runs"])
    return None
