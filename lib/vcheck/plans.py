"""Which model-check configs, trace jobs and special jobs decide which property."""
from .common import *

ARENA_PROPS = ["C01", "C02", "C03", "C04", "C06", "C07", "C08", "C09", "C10", "C11", "C12", "C18"]
# an abort / fatal signal of the code under test while a property's driver runs it is a violation of that property
CRASH_IS_VIOLATION = {"C01", "C02", "C03", "C04", "C06", "C07", "C08", "C09", "C10", "C11", "C12", "C13", "C14", "C15", "C16", "C17", "C18", "C19", "C20"}

ALLOCATOR_API_OPS = {"allocate", "allocate_zeroed", "grow", "grow_zeroed", "shrink", "deallocate"}
TRY_WITH_OPS = {"alloc_try_with", "try_alloc_try_with", "alloc_slice_try_fill_with", "alloc_slice_try_fill_iter"}

def also_counts_for(f):
    """A formula is filed under one property by the trace spec but may decide others as well:
    e.g. a misaligned or overlapping result of Allocator::grow violates C12 as much as C04/C01."""
    out = set()
    p, name, op = f.get("property"), f.get("formula"), f.get("op")
    if op in ALLOCATOR_API_OPS and p in ("C01", "C02", "C04"):
        out.add("C12")
    if op in TRY_WITH_OPS and p in ("C01", "C02"):
        out.add("C11")
    if name in ("NothingAllocatedAfterReset", "ResetKeepsAtMostOne", "AtMostOneBlockAfterReset"):
        out.update({"C03", "C06", "C10"})
    if name in ("FailureKeepsHeldMemory",):
        out.add("C09")
    if name in ("NoDoubleDrop",) and f.get("source") in ("CollTrace",):
        out.update({"C15", "C16"})
    if name in ("CapacityNeverOverstated", "RequestThatFitsSucceedsWhateverTheLimit", "ReportedCapacityServableWithoutNewMemory"):
        out.update({"C06", "C07", "C18"})
    # Box "owns its value like std's Box ... without dropping or duplicating anything": the drop-ledger formulas
    # on Box operations decide C17 as much as C15
    if f.get("source") == "CollTrace" and p in ("C15", "C16") and (str(op).startswith("box_") or op in ("into_boxed_slice", "zbox_try_array")):
        out.add("C17")
    # an arena-level failure while a collection drives the arena: the collection's storage overlaps, moves or
    # is misaligned -- its contents / neighbours are not what std's would be
    if f.get("source") in ("ArenaMonitor",) and p in ("C01", "C02", "C04", "C12"):
        if f.get("driver") in ("coll_driver", "collx_driver"):
            out.update({"C13", "C17"})
        if f.get("driver") == "str_driver":
            out.add("C14")
    if name == "FallibleReserveReportsError":
        out.add("C09")
    if name == "LiveBlocksIntact":
        out.update({"C01", "C12"} if op in ALLOCATOR_API_OPS else {"C01"})
    return out

def tj(driver, gen, tier, profile, seed, nshards, monitors, features=None, **kw):
    return [dict(driver=driver, gen=gen, tier=tier, profile=profile, seed=seed, shard=i, nshards=nshards,
                 monitors=monitors, features=features, **kw) for i in range(nshards)]

def arena_corpus(tier, seed, gens, profiles=("dbg", "rel")):
    jobs = []
    for g in gens:
        for prof in profiles:
            n = {"quick": 2, "thorough": 8}[tier]
            # volume workloads are one event per bulk call: the strict spec would have to replay millions of steps
            mons = ["ArenaMonitor"] if g == "volume" else ["ArenaMonitor", "ArenaTrace"]
            jobs += tj("arena_driver", g, tier, prof, seed, n, mons)
    return jobs

ARENA_GENS = {
    "C01": ["history", "offset", "random", "trywith", "fault"],
    "C02": ["history", "random", "uniform", "fault", "zinit"],
    "C03": ["history", "random", "fault"],
    "C04": ["offset", "history", "trywith", "fault"],
    "C06": ["history", "random", "uniform", "limit"],
    "C07": ["history", "random", "limit"],
    "C08": ["history", "random", "fault", "limit"],
    "C09": ["history", "random", "fault"],
    "C10": ["history", "random", "uniform"],
    "C11": ["history", "random", "trywith", "fault", "zinit"],
    "C12": ["history", "random", "fault"],
    "C18": ["history", "random", "volume", "limit"],
}

COLL_GENS = {
    "C13": ["single", "pairs", "random", "growth"],
    "C15": ["single", "pairs", "random", "growth"],
    "C16": ["panics", "random-panics"],
    "C17": ["single", "pairs", "random"],
}

# every collection / string run is also seen at arena level (API hooks) and validated by the arena specs
ARENA_VIEW = ["ArenaMonitor", "ArenaTrace"]

def client_corpus(tier, seed):
    """collection programs as drivers of the arena: only their arena-level traces are validated here"""
    jobs = tj("coll_driver", "growth", tier, "dbg", seed, 1, [], monitors_arena=ARENA_VIEW)
    jobs += tj("coll_driver", "pairs", tier, "rel", seed, 1, [], monitors_arena=ARENA_VIEW)
    jobs += tj("str_driver", "snogrow", tier, "dbg", seed, 1, [], monitors_arena=ARENA_VIEW)
    return jobs

# the reference semantics itself as a state machine: ownership conservation, aliasing, panic atomicity, length laws
COLL_MC = dict(module="CollModel", cfg="CollModel", workers=8, timeout=1200, mem="6g")

def coll_corpus(tier, seed, gens, profiles=("dbg", "rel")):
    jobs = []
    for g in gens:
        for prof in profiles:
            n = {"quick": 2, "thorough": 6}[tier]
            jobs += tj("coll_driver", g, tier, prof, seed, n, ["CollTrace"], max_events=25000, monitors_arena=ARENA_VIEW)
    return jobs

def str_corpus(tier, seed, gens, profiles=("dbg", "rel")):
    jobs = []
    for g in gens:
        for prof in profiles:
            n = {"quick": 2, "thorough": 6}[tier]
            if g == "sops":
                n *= 3
            jobs += tj("str_driver", g, tier, prof, seed, n, ["StrTrace"], max_events=25000, monitors_arena=ARENA_VIEW)
    return jobs

ARENA_MC = {
    "C01": ["Arena_small_alloc", "Arena_small_realloc"],
    "C02": ["Arena_small_realloc"],
    "C03": ["Arena_small_limit", "Arena_small_alloc"],
    "C04": ["Arena_small_alloc"],
    "C06": ["Arena_small_limit"],
    "C07": ["Arena_small_limit"],
    "C08": ["Arena_small_limit"],
    "C09": ["Arena_small_limit", "Arena_small_alloc"],
    "C10": ["Arena_small_alloc"],
    "C11": ["Arena_small_trywith"],
    "C12": ["Arena_small_realloc"],
    "C18": ["Arena_small_limit"],
}

def arena_mc(pid, tier):
    # breadth-first exploration of Arena.tla, bounded by time (the small-scope state spaces run to tens of
    # millions of states): quick 45 s per config, thorough 15 min
    t = 66 if tier == "quick" else 905   # TLC reports progress once a minute
    jobs = [dict(module="Arena", cfg=c, workers=8, timeout=t, bounded=True, mem="8g", tier=tier) for c in ARENA_MC[pid]]
    if pid == "C09":
        # liveness of the retry loop against a global allocator that refuses for ever (complete run, ~1 s)
        jobs.append(dict(module="Retry", cfg="Retry", workers=4, timeout=600))
    return jobs

def plan_for(pid, tier, seed):
    if pid == "C05":
        from . import borrow
        return dict(level="model_checking", mc=[], traces=[], special=[borrow.run_c05],
                    assumptions=["rustc's verdict (the executor for compile-time properties)",
                                 "Borrow.tla's statement language: the family of programs of <= 3 statements over <= 2 tokens of every kind"])
    if pid == "C19":
        jobs = []
        for prof in ("dbg", "rel"):
            jobs += tj("sizes_driver", "boundaries", tier, prof, seed, 1, ["Sizes"])
        return dict(level="model_checking", traces=jobs, special=[],
                    mc=[dict(module="SizesModel", cfg="SizesModel", workers=4, timeout=600)],
                    assumptions=["TLC; Big.tla digit arithmetic (TLC integers are 32-bit)",
                                 "SizesModel.tla: the code's checked/unchecked operations transcribed by hand, for an 8-bit word"])
    if pid == "C20":
        jobs = []
        for prof in ("dbg", "rel"):
            jobs += tj("multi_driver", "multi", tier, prof, seed, 2 if tier == "quick" else 4, ["ArenaMonitor", "ArenaTrace"],
                       monitors_sync=["ThreadsTrace"], monitors_iso=["Isolation"])
        # every single-arena history also decides "the shared empty chunk is never written"
        jobs += arena_corpus(tier, seed, ["history"])
        from . import borrow
        return dict(level="model_checking", traces=jobs, special=[borrow.run_c20],
                    mc=[dict(module="Threads", cfg="Threads", workers=8, timeout=900)],
                    assumptions=["TLC", "footer-store hook (__verif::footer_store) sees every store of a bump pointer; every other store into the shared static empty chunk "
                                 "is seen by the mprotect write guard while an arena that holds no memory is operated on",
                                 "data races only on crate-level shared state (chunk footers, the static empty chunk); reads are not hooked"])
    if pid == "C14":
        return dict(level="model_checking", mc=[dict(module="StrModel", cfg="StrModel", workers=4, timeout=900)],
                    traces=str_corpus(tier, seed, ["sops", "decoders", "srandom", "snogrow"]), special=[],
                    assumptions=["TLC and the Json/IOUtils community modules",
                                 "the reference semantics Str.tla incl. the transcribed UTF-8/UTF-16 decoders (cross-validated against std on every input)"])
    if pid == "C16":
        # the callback-taking algorithms as step machines with a panic at every callback: the code's variants must
        # satisfy the laws, the pre-fix / seeded variants must be refuted
        ps = [dict(module="PanicSafe", cfg="PanicSafe_" + c, workers=2, timeout=600, mem="2g") for c in ("df", "tr", "sr", "dd", "sp")]
        ps += [dict(module="PanicSafe", cfg="PanicSafe_" + c, workers=2, timeout=600, mem="2g", expect_violation=True) for c in ("df_bad", "tr_bad", "sr_bad", "dd_bad", "sp_bad")]
        return dict(level="model_checking", mc=[COLL_MC] + ps, special=[],
                    traces=coll_corpus(tier, seed, COLL_GENS[pid]) + str_corpus(tier, seed, ["spanics", "srandom"])
                           + arena_corpus(tier, seed, ["apanics"]),
                    assumptions=["TLC and the Json/IOUtils community modules", "Coll.tla / Str.tla reference semantics (cross-validated against std)",
                                 "exactly one programmed panic per call (a second panic while unwinding aborts; outside the property)"])
    if pid in COLL_GENS:
        extra = []
        if pid in ("C13", "C15", "C17"):
            for prof in ("dbg", "rel"):
                extra += tj("collx_driver", "zst", tier, prof, seed, 1, ["CollTrace"], max_events=25000, monitors_arena=ARENA_VIEW)
                if pid == "C13":
                    extra += tj("collx_driver", "copyops", tier, prof, seed, 1, ["CollTrace"], max_events=25000, monitors_arena=ARENA_VIEW)
        mcs = [COLL_MC]
        if pid == "C15":
            # ownership through the multi-step algorithms (no panic needed for these laws to bite)
            mcs += [dict(module="PanicSafe", cfg="PanicSafe_" + c, workers=2, timeout=600, mem="2g") for c in ("sp", "dd", "df")]
            mcs += [dict(module="PanicSafe", cfg="PanicSafe_" + c, workers=2, timeout=600, mem="2g", expect_violation=True) for c in ("sp_bad", "dd_bad")]
        return dict(level="model_checking", mc=mcs, traces=coll_corpus(tier, seed, COLL_GENS[pid]) + extra, special=[],
                    assumptions=["TLC and the Json/IOUtils community modules",
                                 "the reference semantics Coll.tla (cross-validated: the same formulas accept std's own Vec/Box on the same programs)",
                                 "Tracked elements' drop ledger (harness)"])
    if pid in ARENA_PROPS:
        from . import replay
        gens = {"C01": ["ArenaGen_realloc5"], "C02": ["ArenaGen_realloc5"], "C12": ["ArenaGen_realloc5"], "C04": ["ArenaGen_quick3"],
                "C03": ["ArenaGen_quick3"], "C06": ["ArenaGen_quick3"], "C08": ["ArenaGen_quick3"],
                "C11": ["ArenaGen_trywith"], "C10": ["ArenaGen_trywith"]}.get(pid, [])
        if tier == "thorough" and pid in ("C01", "C04", "C12"):
            gens = gens + ["ArenaGen_quick"]
        traces = arena_corpus(tier, seed, ARENA_GENS[pid])
        # the repository's own test suite as a driver: every arena operation its tests perform, via the API hooks
        traces = traces + tj("suite", "repo-tests", tier, "dbg", 0, 4, ["ArenaMonitor", "ArenaTrace"], cap=3000 if tier == "quick" else 6000)
        # ... and the collections as clients of the arena
        traces = traces + client_corpus(tier, seed)
        if pid == "C09":
            # "fallible methods never panic" also for the collections' try_reserve family (same formula as C13)
            traces = traces + tj("coll_driver", "single", tier, "dbg", seed, 2 if tier == "quick" else 6, ["CollTrace"], max_events=25000, monitors_arena=ARENA_VIEW)
        if pid == "C18":
            # the collections' amortised growth on top of the arena's
            traces = traces + coll_corpus(tier, seed, ["growth"])
        special = [replay.make_job(g) for g in gens]
        if pid in ("C01", "C04"):
            # unbounded integers: Apalache discharges the inductive invariant of the fast-path arithmetic
            from . import apalache
            special.append(apalache.run_fastpath)
        return dict(level="model_checking", mc=arena_mc(pid, tier), traces=traces,
                    special=special,
                    assumptions=["TLC and the Json/IOUtils community modules",
                                 "the harness's recording global allocator (deterministic address map)",
                                 "small-scope hypothesis for the exhaustive model runs",
                                 "API-level traces: the crate's cfg(bumpalo_verif) hooks report every public arena operation (all allocation flavours "
                                 "funnel through try_alloc_layout) and every call into the global allocator; per arena a prefix is validated",
                                 "Apalache + Z3 for the unbounded FastPathInd obligations (C01, C04)"])
    return None
