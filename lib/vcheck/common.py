import hashlib, json, os, subprocess, sys, time, glob, shutil

VERIF = os.path.abspath(os.path.join(os.path.dirname(__file__), "..", ".."))
REPO = "/repo"
WORK = os.path.join(VERIF, "work")
HARNESS = os.path.join(VERIF, "harness")
SPEC = os.path.join(VERIF, "spec")
EVID = os.path.join(VERIF, "evidence")
CACHE = os.path.join(WORK, "cache")
REPLAY = os.path.join(WORK, "replay")
NCPU = os.cpu_count() or 4

class ToolError(Exception):
    pass

def log(*a):
    print("[check]", *a, file=sys.stderr, flush=True)

def ensure_dirs():
    for d in (WORK, CACHE, REPLAY, EVID):
        os.makedirs(d, exist_ok=True)

def sha_files(paths):
    h = hashlib.sha256()
    for p in sorted(paths):
        h.update(p.encode())
        try:
            with open(p, "rb") as f:
                h.update(f.read())
        except OSError:
            h.update(b"<missing>")
    return h.hexdigest()

_tree_hash = None
def tree_hash():
    """hash of everything a verdict depends on: /repo sources, harness, specs, orchestrator"""
    global _tree_hash
    if _tree_hash is None:
        files = []
        for root in (os.path.join(REPO, "src"), os.path.join(REPO, "tests"), os.path.join(HARNESS, "src"), os.path.join(HARNESS, "tests"),
                     SPEC, os.path.join(VERIF, "lib")):
            for dp, dn, fn in os.walk(root):
                if "target" in dp or "__pycache__" in dp or "/states" in dp:
                    continue
                for f in fn:
                    if f.endswith((".rs", ".tla", ".cfg", ".py", ".toml")):
                        files.append(os.path.join(dp, f))
        files += [os.path.join(REPO, "Cargo.toml"), os.path.join(HARNESS, "Cargo.toml"),
                  os.path.join(HARNESS, ".cargo", "config.toml"), os.path.join(VERIF, "known_findings.json")]
        _tree_hash = sha_files(files)
    return _tree_hash

def cache_get(key):
    p = os.path.join(CACHE, key + ".json")
    if os.path.exists(p) and not os.environ.get("VERIF_NOCACHE"):
        try:
            return json.load(open(p))
        except Exception:
            return None
    return None

def cache_put(key, val):
    p = os.path.join(CACHE, key + ".json")
    tmp = p + ".tmp%d" % os.getpid()
    json.dump(val, open(tmp, "w"))
    os.replace(tmp, p)

def run(cmd, cwd=None, env=None, timeout=None, check=False):
    e = dict(os.environ)
    if env:
        e.update(env)
    t0 = time.time()
    try:
        r = subprocess.run(cmd, cwd=cwd, env=e, stdout=subprocess.PIPE, stderr=subprocess.STDOUT,
                           timeout=timeout, text=True, errors="replace")
    except subprocess.TimeoutExpired as ex:
        out = ex.stdout if isinstance(ex.stdout, str) else (ex.stdout or b"").decode(errors="replace")
        return 124, out, time.time() - t0
    if check and r.returncode != 0:
        raise ToolError("command failed (%d): %s\n%s" % (r.returncode, " ".join(cmd), r.stdout[-4000:]))
    return r.returncode, r.stdout, time.time() - t0

_built_crate = {}
def build_crate(profile):
    """offline build of /repo's current tree alone (as the harness's dependency, same features and cfg): what the
    compile-time probes link against. Independent of whether the harness itself still compiles against it."""
    if profile in _built_crate:
        return _built_crate[profile]
    cmd = ["cargo", "build", "--offline", "-p", "bumpalo"] + (["--release"] if profile == "rel" else [])
    rc, out, dt = run(cmd, cwd=HARNESS, env={"CARGO_NET_OFFLINE": "true"}, timeout=1800)
    if rc != 0:
        raise ToolError("the crate does not build (%s):\n%s" % (profile, out[-6000:]))
    d = os.path.join(HARNESS, "target", "release" if profile == "rel" else "debug")
    _built_crate[profile] = d
    return d

_built = {}
def build_harness(profile, features=None):
    """offline build of the harness (and of /repo's current tree, as its path dependency)"""
    key = (profile, features)
    if key in _built:
        return _built[key]
    cmd = ["cargo", "build", "--offline", "--bins"]
    tdir = "target"
    if features:
        tdir = "target-" + features
        cmd += ["--features", features, "--target-dir", tdir]
    if profile == "rel":
        cmd.append("--release")
    env = {"CARGO_NET_OFFLINE": "true"}
    rc, out, dt = run(cmd, cwd=HARNESS, env=env, timeout=1800)
    if rc != 0:
        raise ToolError("harness build failed (%s):\n%s" % (profile, out[-6000:]))
    d = os.path.join(HARNESS, tdir, "release" if profile == "rel" else "debug")
    _built[key] = d
    log("built harness %s%s in %.1fs" % (profile, " +" + features if features else "", dt))
    return d
