import json, os, sys, time, hashlib, concurrent.futures as cf
from .common import *
from . import tlc
from . import plans

def load_known():
    p = os.path.join(VERIF, "known_findings.json")
    if os.path.exists(p):
        return json.load(open(p))
    return {"findings": []}

def sig_of(f):
    return "%s/%s" % (f["property"], f["formula"])

def matches_known(f, known):
    for k in known.get("findings", []):
        if k.get("status") != "known":
            continue
        if k["property"] != f["property"]:
            continue
        if k.get("formula") and k["formula"] != f["formula"]:
            continue
        if k.get("ops") and f.get("op") not in k["ops"]:
            continue
        if k.get("source") and k["source"] != f.get("source"):
            continue
        return k
    return None

# ------------------------------------------------------------------ trace jobs
def run_trace_job(job):
    """driver -> ndjson -> monitors. Returns a JSON-able result (cached)."""
    key = hashlib.sha256((tree_hash() + json.dumps(job, sort_keys=True)).encode()).hexdigest()[:32]
    c = cache_get("tj-" + key)
    if c is not None:
        c["cached"] = True
        return c
    bindir = build_harness(job["profile"], job.get("features"))
    name = "%s-%s-%s-%s-%d" % (job["driver"], job["gen"].replace(":", "_"), job["tier"], job["profile"] + (job.get("features") or ""), job["shard"])
    tdir = os.path.join(WORK, "traces")
    os.makedirs(tdir, exist_ok=True)
    trace = os.path.join(tdir, name + "-%s.ndjson" % key[:8])
    progs = trace + ".progs"
    if job["driver"] == "suite":
        rc, out, dt = run_suite(job, trace)
        cmd = None
    elif job.get("progfile"):
        cmd = [os.path.join(bindir, job["driver"]), "--prog", job["progfile"],
               "--shard", "%d/%d" % (job["shard"], job["nshards"]), "--out", trace, "--dump-progs", progs]
    else:
        cmd = [os.path.join(bindir, job["driver"]), "--gen", job["gen"], "--tier", job["tier"], "--seed", str(job["seed"]),
               "--shard", "%d/%d" % (job["shard"], job["nshards"]), "--out", trace, "--dump-progs", progs]
    if cmd is not None:
        rc, out, dt = run(cmd, timeout=job.get("driver_timeout", 1800))
    res = dict(job=job, driver_rc=rc, driver_wall=dt, fails=[], drift=[], events=0, monitors=[], cached=False, samples=[], crash=None)
    if rc != 0:
        # a crash (abort, signal) of the code under test is a recorded outcome
        res["crash"] = dict(rc=rc, tail=out[-1500:])
    nev = 0
    sample = []
    try:
        # a driver that died mid-write leaves a truncated last line: drop it (the crash itself is recorded)
        good = []
        with open(trace, errors="replace") as f:
            for line in f:
                try:
                    obj = json.loads(line)
                except Exception:
                    continue
                good.append(line)
                if nev < 3 or (nev % 9973 == 0 and len(sample) < 6):
                    sample.append(obj)
                nev += 1
        if rc != 0:
            with open(trace, "w") as f:
                f.writelines(good)
    except OSError:
        pass
    res["events"] = nev
    res["samples"] = sample
    m = __import__("re").search(r"programs=(\d+) events=(\d+)", out)
    res["programs_total"] = int(m.group(1)) if m else 0
    failing_ps = set()
    if nev > 0:
        # shard large traces for TLC (ndJsonDeserialize loads the whole file)
        parts = split_trace(trace, job.get("max_events", 40000))
        for part in parts:
            for mod in job["monitors"]:
                r = tlc.validate_trace(mod, part, timeout=job.get("tlc_timeout", 1800))
                mon = dict(module=mod, generated=r["generated"], distinct=r["distinct"], accepted=r["accepted"],
                           wall=r["wall"], tool_error=r["tool_error"], rejected=r["rejected"])
                res["monitors"].append(mon)
                for t in r.get("specfail", []):
                    # the *std* half of a twin trace disagrees with the reference semantics:
                    # a defect of this machinery's transcription, not of the code under test
                    mon["tool_error"] = "SPECFAIL (std disagrees with the spec): %s" % json.dumps(t)[:600]
                for t in r["drift"]:
                    # <<"DRIFT", name, line, <<p, i, op, ma>>, witness>>
                    try:
                        res["drift"].append(dict(name=t[1], line=t[2], p=t[3][0], i=t[3][1], op=t[3][2], ma=t[3][3],
                                                 witness=t[4] if len(t) > 4 else None, gen=job["gen"], profile=job["profile"]))
                    except Exception:
                        pass
                for t in r["fails"]:
                    # <<"PROPFAIL", prop, formula, line, <<p, i, op, ma>>, witness>>
                    try:
                        f = dict(property=t[1], formula=t[2], line=t[3], p=t[4][0], i=t[4][1], op=t[4][2], ma=t[4][3],
                                 witness=t[5] if len(t) > 5 else None, source=mod, gen=job["gen"], profile=job["profile"],
                                 features=job.get("features"), driver=job["driver"])
                    except Exception:
                        continue
                    res["fails"].append(f)
                    failing_ps.add(f["p"])
                if r["rejected"] and not r["tool_error"]:
                    res["fails"].append(dict(property="*", formula="TraceRejected", line=r["rejected"][0][1] if len(r["rejected"][0]) > 1 else -1,
                                             p=-1, i=-1, op="", ma=0, witness=r["rejected"][0], source=mod, gen=job["gen"],
                                             profile=job["profile"], features=job.get("features"), driver=job["driver"]))
            if part != trace:
                os.remove(part)
    # synchronisation log (multi_driver): validated by its own trace spec
    syncf = trace + ".sync"
    if job.get("monitors_sync") and os.path.exists(syncf):
        for mod in job["monitors_sync"]:
            r = tlc.validate_trace(mod, syncf, timeout=job.get("tlc_timeout", 1800))
            res["monitors"].append(dict(module=mod, generated=r["generated"], distinct=r["distinct"], accepted=r["accepted"],
                                        wall=r["wall"], tool_error=r["tool_error"], rejected=r["rejected"]))
            for t in r["fails"]:
                try:
                    f = dict(property=t[1], formula=t[2], line=t[3], p=t[4][0], i=t[4][1], op=t[4][2], ma=0,
                             witness=t[5] if len(t) > 5 else None, source=mod, gen=job["gen"], profile=job["profile"],
                             features=job.get("features"), driver=job["driver"])
                    res["fails"].append(f)
                    failing_ps.add(f["p"])
                except Exception:
                    pass
    # arena-level view of a collection / string run (API hooks): regrouped per arena, validated by the arena specs
    arenaf = trace + ".arena"
    if job.get("monitors_arena") and os.path.exists(arenaf):
        grouped = arenaf + ".g"
        group_api_trace(arenaf, grouped, 0, 1, job.get("cap", 40000))
        for part in split_trace(grouped, job.get("max_events", 40000)):
            for mod in job["monitors_arena"]:
                r = tlc.validate_trace(mod, part, timeout=job.get("tlc_timeout", 1800))
                res["monitors"].append(dict(module=mod, generated=r["generated"], distinct=r["distinct"], accepted=r["accepted"],
                                            wall=r["wall"], tool_error=r["tool_error"], rejected=r["rejected"]))
                for t in r["drift"]:
                    try:
                        res["drift"].append(dict(name=t[1], line=t[2], p=t[3][0], i=t[3][1], op=t[3][2], ma=t[3][3],
                                                 witness=t[4] if len(t) > 4 else None, gen=job["gen"], profile=job["profile"]))
                    except Exception:
                        pass
                for t in r["fails"]:
                    try:
                        f = dict(property=t[1], formula=t[2], line=t[3], p=t[4][0], i=t[4][1], op=t[4][2], ma=t[4][3],
                                 witness=t[5] if len(t) > 5 else None, source=mod, gen=job["gen"], profile=job["profile"],
                                 features=job.get("features"), driver=job["driver"])
                        res["fails"].append(f)
                        failing_ps.add(f["p"])
                    except Exception:
                        pass
                if r["rejected"] and not r["tool_error"]:
                    res["fails"].append(dict(property="*", formula="TraceRejected", line=-1, p=-1, i=-1, op="", ma=0, witness=r["rejected"][0],
                                             source=mod, gen=job["gen"], profile=job["profile"], features=job.get("features"), driver=job["driver"]))
            if part != grouped:
                os.remove(part)
        try:
            os.remove(grouped)
        except OSError:
            pass
    isof = trace + ".iso"
    if job.get("monitors_iso") and os.path.exists(isof):
        for mod in job["monitors_iso"]:
            r = tlc.validate_trace(mod, isof, timeout=job.get("tlc_timeout", 1800))
            res["monitors"].append(dict(module=mod, generated=r["generated"], distinct=r["distinct"], accepted=r["accepted"],
                                        wall=r["wall"], tool_error=r["tool_error"], rejected=r["rejected"]))
            for t in r["fails"]:
                try:
                    f = dict(property=t[1], formula=t[2], line=t[3], p=t[4][0], i=t[4][1], op=t[4][2], ma=0,
                             witness=t[5] if len(t) > 5 else None, source=mod, gen=job["gen"], profile=job["profile"],
                             features=job.get("features"), driver=job["driver"])
                    res["fails"].append(f)
                    failing_ps.add(f["p"])
                except Exception:
                    pass
    for x in (syncf, isof, arenaf):
        try:
            os.remove(x)
        except OSError:
            pass
    # keep the programs of failing cases for the replay files
    progmap = {}
    if failing_ps and os.path.exists(progs):
        for line in open(progs, errors="replace"):
            try:
                d = json.loads(line)
            except Exception:
                continue
            if d["p"] in failing_ps:
                progmap[str(d["p"])] = d["prog"]
    res["programs"] = progmap
    # dedup fails (TLC may evaluate an action more than once)
    seen = set()
    uniq = []
    for f in res["fails"]:
        k = (f["property"], f["formula"], f["p"], f["i"], f["source"])
        if k not in seen:
            seen.add(k)
            uniq.append(f)
    res["fails"] = uniq
    for p in (trace, progs):
        try:
            os.remove(p)
        except OSError:
            pass
    cache_put("tj-" + key, res)
    return res

def group_api_trace(raw, out, shard, nshards, cap):
    """API-level traces interleave the arenas of a whole process: regroup by arena (p), keep a prefix of at most
    `cap` events per arena (a prefix of a trace is a trace), take this shard's arenas."""
    import collections
    ev = collections.OrderedDict()
    with open(raw, errors="replace") as f:
        for line in f:
            try:
                p = json.loads(line)["p"]
            except Exception:
                continue
            if p % nshards != shard:
                continue
            l = ev.setdefault(p, [])
            if len(l) < cap:
                l.append(line)
    n = 0
    with open(out, "w") as o:
        for p, lines in ev.items():
            o.writelines(lines)
            n += len(lines)
    return len(ev), n

_suite_raw = {}
def run_suite(job, trace):
    """The repository's own integration tests (harness/tests/repo_all.rs includes tests/all/*.rs unchanged), run
    against the working tree with the API hooks recording every arena operation they perform."""
    t0 = time.time()
    hdir = os.path.join(VERIF, "harness")
    prof = ["--release"] if job["profile"] == "rel" else []
    raw = os.path.join(WORK, "traces", "suite-raw-%s-%s.ndjson" % (job["profile"], tree_hash()[:12]))
    lock = _suite_raw.setdefault(raw, __import__("threading").Lock())
    with lock:
        if not os.path.exists(raw + ".done"):
            rc, out, _ = run(["cargo", "test", "--offline", "--test", "repo_all"] + prof + ["--", "--test-threads", "4"], cwd=hdir,
                             env={"BUMPALO_VERIF_APITRACE": raw, "CARGO_NET_OFFLINE": "true"}, timeout=job.get("driver_timeout", 1800))
            ok = rc == 0 and "test result: ok" in out
            if "could not compile" in out or "error[E" in out:
                raise ToolError("the repository's tests do not compile against the working tree:\n" + out[-3000:])
            open(raw + ".done", "w").write(json.dumps(dict(rc=rc, ok=ok, tail=out[-1500:])))
        st = json.loads(open(raw + ".done").read())
    if not st["ok"]:
        return (st["rc"] or 1), st["tail"], time.time() - t0
    na, n = group_api_trace(raw, trace, job["shard"], job["nshards"], job.get("cap", 3000))
    return 0, "programs=%d events=%d" % (na * job["nshards"], n), time.time() - t0

def split_trace(path, max_events):
    """split at program boundaries ("i":0) into files of at most ~max_events lines"""
    n = sum(1 for _ in open(path))
    if n <= max_events:
        return [path]
    parts = []
    cur = None
    cnt = 0
    idx = 0
    with open(path) as f:
        for line in f:
            if cur is None or (cnt >= max_events and '"i":0,' in line[:40]):
                if cur:
                    cur.close()
                pth = "%s.part%d" % (path, idx)
                idx += 1
                parts.append(pth)
                cur = open(pth, "w")
                cnt = 0
            cur.write(line)
            cnt += 1
    if cur:
        cur.close()
    return parts

# ------------------------------------------------------------------ model-check jobs
def run_mc_job(job):
    key = hashlib.sha256((sha_files([os.path.join(SPEC, f) for f in os.listdir(SPEC)]) + json.dumps(job, sort_keys=True)).encode()).hexdigest()[:32]
    c = cache_get("mc-" + key)
    if c is not None:
        c["cached"] = True
        return c
    r = tlc.model_check(job["module"], job["cfg"], workers=job.get("workers", 8), timeout=job.get("timeout", 3000),
                        simulate=job.get("simulate"), depth=job.get("depth"), mem=job.get("mem", "8g"), tags=job.get("tags", ()),
                        bounded=job.get("bounded", False))
    r["job"] = job
    r["cached"] = False
    if not r["error"]:
        cache_put("mc-" + key, r)
    return r

# ------------------------------------------------------------------ verdict + evidence
def write_replay(pid, f, prog):
    ensure_dirs()
    h = hashlib.sha256(json.dumps([f["property"], f["formula"], f.get("op"), f.get("gen"), f.get("p")], sort_keys=True).encode()).hexdigest()[:10]
    path = os.path.join(REPLAY, "%s-%s-%s.json" % (pid, f["formula"], h))
    json.dump(dict(property=pid, formula=f["formula"], driver=f.get("driver"), profile=f.get("profile"),
                   features=f.get("features"), monitor=f.get("source"), program=prog, fail=f), open(path, "w"), indent=1)
    return path

def check_property(pid, tier, seed):
    t0 = time.time()
    ensure_dirs()
    plan = plans.plan_for(pid, tier, seed)
    if plan is None:
        print("no check registered for", pid)
        return 2
    known = load_known()
    # ---- build first (TLC at many workers starves cargo)
    results_t, results_mc, extra = [], [], []
    try:
        for prof, feat in sorted(set((j["profile"], j.get("features")) for j in plan["traces"]), key=str):
            build_harness(prof, feat)
    except ToolError as e:
        # the drivers no longer compile against the working tree. If the crate itself still builds, the
        # compile-time probes (C05, C20) can still speak: a rejected ordinary pattern is a verdict, not a tool error
        done = [fn(tier, seed) for fn in plan.get("special", []) if getattr(fn, "compile_only", False)]
        if not any(r.get("fails") for r in done):
            raise e
        log("harness does not compile against this tree; verdict from the compile-time probes only")
        extra = done
        plan = dict(plan, mc=[], traces=[], special=[])
    # ---- (A) model checking: sequentially, using most cores
    for j in plan["mc"]:
        r = run_mc_job(j)
        results_mc.append(r)
        log("(A) %s: %d generated / %d distinct, %.0fs%s%s" % (j["cfg"], r["generated"], r["distinct"], r["wall"],
            " [cached]" if r.get("cached") else "",
            (" known-bad variant refuted as expected (%s)" % r["violated"] if j.get("expect_violation") else " model invariant fails: " + str(r["violated"])) if r["violated"] else ""))
    # ---- (B)/(C) traces in parallel
    with cf.ThreadPoolExecutor(max_workers=max(2, NCPU // 2)) as ex:
        for r in ex.map(run_trace_job, plan["traces"]):
            results_t.append(r)
    # ---- special jobs (python callables returning dicts with 'fails')
    for fn in plan.get("special", []):
        extra.append(fn(tier, seed))
    # ---- collect
    tool_errors = []
    fails = []
    for r in results_t:
        for m in r["monitors"]:
            if m["tool_error"]:
                tool_errors.append("%s on %s: %s" % (m["module"], r["job"]["gen"], m["tool_error"][-800:]))
        if r["crash"]:
            fails.append(dict(property=pid if pid in plans.CRASH_IS_VIOLATION else "*", formula="DriverCrashed", op="", p=-1, i=-1,
                              witness=r["crash"], source="driver", gen=r["job"]["gen"], profile=r["job"]["profile"],
                              driver=r["job"]["driver"], features=r["job"].get("features")))
        for f in r["fails"]:
            if f["property"] == pid or (f["property"] == "*" ) or pid in plans.also_counts_for(f):
                f = dict(f)
                f["_prog"] = r["programs"].get(str(f["p"]))
                fails.append(f)
    for r in extra:
        for f in r.get("fails", []):
            fails.append(f)
        if r.get("tool_error"):
            tool_errors.append(r["tool_error"])
    for r in results_mc:
        if r["error"]:
            tool_errors.append("TLC %s: %s" % (r["cfg"], str(r["error"])[-800:]))
        if r["job"].get("expect_violation") and not r["violated"] and not r["error"]:
            # a configuration of the model that transcribes a known-bad variant of the code must be refuted:
            # otherwise the laws have lost their teeth
            tool_errors.append("TLC %s: the known-bad variant is no longer refuted" % r["cfg"])
        if r["violated"] and not r["job"].get("expect_violation"):
            # a counterexample in the model alone is not a verdict about the code (DESIGN section 5):
            # report as a tool-level problem of the model unless replayed
            tool_errors.append("TLC %s: the model violates its own invariant %s (a defect of the specification, not a verdict about the code): %s"
                               % (r["cfg"], r["violated"], (r["trace"] or "")[:600]))
    # ---- verdict
    viol, knownhits = {}, {}
    for f in fails:
        if f["property"] == "*" and f["formula"] == "TraceRejected":
            tool_errors.append("trace rejected by %s (%s): %s" % (f["source"], f["gen"], f["witness"]))
            continue
        f["property"] = pid
        k = matches_known(f, known)
        s = sig_of(f)
        if k:
            knownhits.setdefault(k["id"], (k, []))[1].append(f)
        else:
            viol.setdefault(s, []).append(f)
    for kid, (k, fs) in sorted(knownhits.items()):
        print("KNOWN-FINDING: property=%s %s (%d occurrences; %s)" % (pid, k["what"], len(fs), kid))
    drifts = [d for r in results_t for d in r.get("drift", [])]
    if drifts:
        import collections
        cnt = collections.Counter((d["name"], d["op"]) for d in drifts)
        for (nm, op), n in cnt.most_common(8):
            d = next(x for x in drifts if x["name"] == nm and x["op"] == op)
            print("DRIFT property=%s event=%s/%s model-step=%s op=%s occurrences=%d (code no longer follows ArenaCore.tla here; not a violation) witness=%s"
                  % (pid, d["p"], d["i"], nm, op, n, json.dumps(d["witness"])[:200]))
    replay_paths = []
    for s, fs in sorted(viol.items()):
        f = fs[0]
        path = write_replay(pid, f, f.get("_prog"))
        replay_paths.append(path)
        print("VIOLATION property=%s replay=%s" % (pid, path))
        print("  formula=%s op=%s gen=%s profile=%s occurrences=%d witness=%s" % (
            f["formula"], f.get("op"), f.get("gen"), f.get("profile"), len(fs), json.dumps(f.get("witness"))[:300]))
    # ---- evidence
    states = sum(r["distinct"] for r in results_mc) + sum(m["distinct"] for r in results_t for m in r["monitors"])
    trans = sum(r["generated"] for r in results_mc) + sum(m["generated"] for r in results_t for m in r["monitors"])
    ntraces = sum(len(r["monitors"]) for r in results_t if r["events"] > 0)
    nprogs = sum((r.get("programs_total", 0) + r["job"]["nshards"] - 1) // r["job"]["nshards"] for r in results_t)
    samples = []
    for r in results_t[:4]:
        samples += r["samples"][:2]
    for r in results_mc[:3]:
        samples.append(dict(model_check=r["cfg"], distinct=r["distinct"], diameter=r.get("diameter"), coverage=dict(list(r["coverage"].items())[:12])))
    for r in extra:
        samples += r.get("samples", [])[:3]
        states += r.get("states", 0)
        trans += r.get("transitions", 0)
        ntraces += r.get("traces", 0)
    if not samples:
        samples = [dict(note="no cases produced")]
    ev = dict(property_id=pid, tier=tier, seed=seed, level=plan.get("level", "model_checking"),
              coverage=dict(states=max(states, 1), transitions=max(trans, 1), traces_validated_against_impl=ntraces,
                            samples=samples[:10],
                            events_validated=sum(r["events"] for r in results_t),
                            programs_executed=nprogs,
                            model_configs=[dict(cfg=r["cfg"], distinct=r["distinct"], generated=r["generated"], diameter=r.get("diameter"),
                                                wall_s=round(r["wall"], 1), violated=r["violated"], cached=r.get("cached", False),
                                                exhaustive=r.get("complete", False)) for r in results_mc],
                            trace_jobs=[dict(gen=r["job"]["gen"], profile=r["job"]["profile"], features=r["job"].get("features"),
                                             shard="%d/%d" % (r["job"]["shard"], r["job"]["nshards"]), events=r["events"],
                                             monitors=[m["module"] for m in r["monitors"]], cached=r.get("cached", False)) for r in results_t],
                            extra=[{k: v for k, v in r.items() if k in ("name", "summary", "counts")} for r in extra],
                            known_findings_hit=sorted(knownhits.keys()),
                            drift_events=len(drifts),
                            exhaustive=False),
              assumptions=plan.get("assumptions", []),
              wall_s=round(time.time() - t0, 2), violations=len(viol))
    json.dump(ev, open(os.path.join(EVID, pid + ".json"), "w"), indent=1)
    if tool_errors:
        for t in tool_errors[:5]:
            print("TOOL-ERROR:", t[:1500])
        if not viol:
            return 2
    return 1 if viol else 0

def replay(path):
    d = json.load(open(path))
    pid = d["property"]
    if not d.get("program"):
        print("replay file has no program (model-level or crash finding):", d.get("formula"))
        return 2
    bindir = build_harness(d.get("profile") or "dbg", d.get("features"))
    tmp = os.path.join(WORK, "replay-%d" % os.getpid())
    os.makedirs(tmp, exist_ok=True)
    pf = os.path.join(tmp, "prog.json")
    json.dump([d["program"]], open(pf, "w"))
    tr = os.path.join(tmp, "trace.ndjson")
    rc, out, dt = run([os.path.join(bindir, d["driver"]), "--prog", pf, "--out", tr], timeout=600)
    r = tlc.validate_trace(d["monitor"], tr)
    hit = [t for t in r["fails"] if t[1] == pid and t[2] == d["formula"]]
    import shutil
    shutil.rmtree(tmp, ignore_errors=True)
    if hit:
        print("VIOLATION property=%s replay=%s" % (pid, path))
        print("  reproduced:", json.dumps(hit[0])[:600])
        return 1
    print("not reproduced (%d other PROPFAIL lines)" % len(r["fails"]))
    return 0

def triage(tier, seed):
    """development aid: run the whole arena corpus once and tabulate every PROPFAIL"""
    import collections
    jobs = []
    seen = set()
    for pid in plans.ARENA_PROPS:
        for j in plans.plan_for(pid, tier, seed)["traces"]:
            k = json.dumps(j, sort_keys=True)
            if k not in seen:
                seen.add(k)
                jobs.append(j)
    for prof, feat in sorted(set((j["profile"], j.get("features")) for j in jobs), key=str):
        build_harness(prof, feat)
    tab = collections.OrderedDict()
    with cf.ThreadPoolExecutor(max_workers=max(2, NCPU // 2)) as ex:
        for r in ex.map(run_trace_job, jobs):
            for m in r["monitors"]:
                if m["tool_error"]:
                    print("TOOL-ERROR", r["job"]["gen"], m["tool_error"][-600:])
            if r["crash"]:
                print("CRASH", r["job"], r["crash"])
            for f in r["fails"]:
                k = (f["property"], f["formula"], f["profile"])
                tab.setdefault(k, []).append(f)
    for k, fs in sorted(tab.items()):
        f = fs[0]
        print("%-4s %-45s %-4s n=%-6d first: gen=%s p=%s i=%s op=%s ma=%s wit=%s" % (k[0], k[1], k[2], len(fs), f["gen"], f["p"], f["i"], f["op"], f["ma"], json.dumps(f["witness"])[:200]))
    return 0

def main(argv):
    if not argv:
        print(__doc__)
        return 2
    try:
        if argv[0] == "replay":
            return replay(argv[1])
        if argv[0] == "triage":
            return triage(argv[1] if len(argv) > 1 else "quick", int(os.environ.get("VERIF_SEED", "0") or 0))
        if argv[0] == "build":
            build_harness("dbg")
            build_harness("rel")
            return 0
        pid = argv[0]
        tier = argv[1] if len(argv) > 1 else os.environ.get("VERIF_TIER", "quick")
        seed = int(os.environ.get("VERIF_SEED", "0") or 0)
        return check_property(pid, tier, seed)
    except ToolError as e:
        print("TOOL-ERROR:", str(e)[-3000:])
        return 2
