"""C05: Borrow.tla's program table rendered to Rust probes and compiled against the crate
built from the working tree. rustc is the executor; the model is the oracle."""
import os, re, json, glob, hashlib, shutil, time, concurrent.futures as cf
from .common import *
from . import tlc

HEADER = """#![allow(warnings)]
use bumpalo::Bump;
use bumpalo::collections::{Vec as BVec, String as BString};
use bumpalo::boxed::Box as BBox;
use bumpalo::collections::CollectIn;
fn use_ref<T: ?Sized>(_: &T) {}
pub fn probe() {
    let mut bump = @NEW@;
"""

MK = {
    "Ref": "let t{n} = bump.alloc(1u64);",
    "Slice": "let t{n} = bump.alloc_slice_copy(&[1u8, 2]);",
    "Str": "let t{n} = bump.alloc_str(\"x\");",
    "Vec": "let mut t{n} = BVec::<u64>::new_in(&bump);",
    "String": "let mut t{n} = BString::new_in(&bump);",
    "Box": "let t{n} = BBox::new_in(1u64, &bump);",
    "VecIntoIter": "let t{n} = BVec::<u64>::new_in(&bump).into_iter();",
    "RawIter": "let t{n} = unsafe {{ bump.iter_allocated_chunks_raw() }};",
    "ChunkIter": "let t{n} = bump.iter_allocated_chunks();",
    "LeakRef": "let t{n} = BBox::leak(BBox::new_in(1u64, &bump));",
    "BumpSlice": "let t{n} = {{ let mut v = BVec::<u64>::new_in(&bump); v.push(1); v.into_bump_slice() }};",
    "BumpSliceMut": "let t{n} = {{ let mut v = BVec::<u64>::new_in(&bump); v.push(1); v.into_bump_slice_mut() }};",
    "BumpStr": "let t{n} = {{ let mut s = BString::new_in(&bump); s.push('x'); s.into_bump_str() }};",
    "BoxedSlice": "let t{n} = {{ let mut v = BVec::<u64>::new_in(&bump); v.push(1); v.into_boxed_slice() }};",
    "IntoInnerRef": "let t{n} = BBox::into_inner(BBox::new_in(bump.alloc(1u64), &bump));",
    "Drain": "let mut h{n} = BVec::<u64>::new_in(&bump); let t{n} = h{n}.drain(..);",
    "Splice": "let mut h{n} = BVec::<u64>::new_in(&bump); let t{n} = h{n}.splice(.., core::iter::empty::<u64>());",
    "DrainFilter": "let mut h{n} = BVec::<u64>::new_in(&bump); let t{n} = h{n}.drain_filter(|x: &mut u64| *x == 0);",
    "StrDrain": "let mut h{n} = BString::new_in(&bump); let t{n} = h{n}.drain(..);",
    # conversions between arena-backed values
    "BoxSliceFromArray": "let t{n} = BBox::<[u64]>::from(BBox::new_in([1u64; 2], &bump));",
    "BoxArrayTryFrom": "let t{n} = BBox::<[u64; 1]>::try_from({{ let mut v = BVec::<u64>::new_in(&bump); v.push(1); v.into_boxed_slice() }}).ok().unwrap();",
    "BoxTryFromErr": "let t{n} = BBox::<[u64; 2]>::try_from({{ let mut v = BVec::<u64>::new_in(&bump); v.push(1); v.into_boxed_slice() }}).unwrap_err();",
    "PinBox": "let t{n} = BBox::pin_in(1u64, &bump);",
    "PinFromBox": "let t{n} = core::pin::Pin::from(BBox::new_in(1u64, &bump));",
    "BumpRef": "let t{n} = BVec::<u64>::new_in(&bump).bump();",
    "StringIntoBytes": "let mut t{n} = BString::new_in(&bump).into_bytes();",
    "StringFromUtf8": "let mut t{n} = BString::from_utf8(BVec::<u8>::new_in(&bump)).unwrap();",
    "FromUtf8Err": "let t{n} = BString::from_utf8(bumpalo::vec![in &bump; 255u8]).unwrap_err();",
    "VecMacro": "let mut t{n} = bumpalo::vec![in &bump; 1u64, 2];",
    "FormatMacro": "let mut t{n} = bumpalo::format!(in &bump, \"x{{}}\", 1);",
    "CollectIn": "let mut t{n}: BVec<u64> = (0..2u64).collect_in(&bump);",
    "AllocWith": "let t{n} = bump.alloc_with(|| 1u64);",
    "TryAllocOk": "let t{n} = bump.try_alloc(1u64).unwrap();",
    "AllocTryWith": "let t{n} = bump.alloc_try_with(|| Ok::<u64, ()>(1)).unwrap();",
    "SliceFillIter": "let t{n} = bump.alloc_slice_fill_iter([1u8, 2]);",
    "ChunkItem": "let t{n} = bump.iter_allocated_chunks().next();",
    "ApiVec": "let mut t{n} = allocator_api2::vec::Vec::<u64, &Bump>::new_in(&bump);",
    "ApiBox": "let t{n} = allocator_api2::boxed::Box::new_in(1u64, &bump);",
}
DERIVED = {"Drain", "Splice", "DrainFilter", "StrDrain"}

# kinds that exist for every MIN_ALIGN (the collections and Box are tied to the default arena type)
ANY_ALIGN_KINDS = {"Ref", "Slice", "Str", "RawIter", "ChunkIter", "ChunkItem", "AllocWith", "TryAllocOk", "AllocTryWith", "SliceFillIter"}
NEW_DEFAULT = "Bump::new()"

def arena_variants(prog):
    """the arena expressions a program is rendered with: the default one, and -- when nothing in the program is tied to
    the default arena type -- one with a non-default minimum alignment (the model's verdict does not depend on it)"""
    out = [NEW_DEFAULT]
    if all(st["s"] != "mk" or st["k"] in ANY_ALIGN_KINDS for st in prog):
        out.append("Bump::<8>::with_min_align()")
        if any(st["s"] in ("sendarena", "sharearena", "droparena") for st in prog):
            out += ["Bump::<2>::with_min_align()", "Bump::<16>::with_min_align_and_capacity(64)"]
    return out

def render(prog, new=NEW_DEFAULT):
    lines = [HEADER.replace("@NEW@", new)]
    n = 0
    kinds = {}
    for st in prog:
        s = st["s"]
        if s == "mk":
            n += 1
            kinds[n] = st["k"]
            lines.append("    " + MK[st["k"]].format(n=n))
        elif s == "use":
            lines.append("    use_ref(&t%d);" % st["t"])
        elif s == "droptok":
            lines.append("    drop(t%d);" % st["t"])
            if kinds.get(st["t"]) in DERIVED:
                lines.append("    drop(h%d);" % st["t"])
        elif s == "sendtok":
            lines.append("    std::thread::scope(|s| { s.spawn(move || { drop(t%d); }); });" % st["t"])
        elif s == "synctok":
            lines.append("    std::thread::scope(|s| { s.spawn(|| { use_ref(&t%d); }); });" % st["t"])
        elif s == "reset":
            lines.append("    bump.reset();")
        elif s == "itermut":
            lines.append("    for _c in bump.iter_allocated_chunks() {}")
        elif s == "allocmore":
            lines.append("    let _ = bump.alloc(2u8);")
        elif s == "droparena":
            lines.append("    drop(bump);")
        elif s == "sendarena":
            lines.append("    std::thread::scope(|s| { s.spawn(move || { let b = bump; let _ = b.alloc(1u8); }); });")
        elif s == "sharearena":
            lines.append("    std::thread::scope(|s| { s.spawn(|| { let _ = bump.alloc(1u8); }); });")
    lines.append("}\n")
    return "\n".join(lines)

MOVED = {"E0382"}
THREAD = {"E0277"}

def classify(codes):
    if not codes:
        return "ok"
    if codes & THREAD:
        return "thread"
    if codes & MOVED and not (codes - MOVED):
        return "moved"
    return "borrow"

API2 = []

def compile_probe(args):
    idx, src, depsdir, rlib, outdir = args
    f = os.path.join(outdir, "p%d.rs" % idx)
    open(f, "w").write(src)
    cmd = ["rustc", "--edition", "2021", "--crate-type", "lib", "--emit", "metadata", "-o", os.path.join(outdir, "p%d.rmeta" % idx),
           "-L", "dependency=" + depsdir, "--extern", "bumpalo=" + rlib] + API2 + ["--error-format", "short", "--cap-lints", "allow", f]
    rc, out, dt = run(cmd, timeout=120)
    codes = set(re.findall(r"error\[(E\d+)\]", out))
    other = rc != 0 and not codes
    for ext in (".rs", ".rmeta"):
        try:
            os.remove(os.path.join(outdir, "p%d%s" % (idx, ext)))
        except OSError:
            pass
    return idx, rc == 0, sorted(codes), (out[-500:] if other else "")

THREAD_STMTS = {"sendarena", "sharearena", "sendtok", "synctok"}

def run_c20(tier, seed):
    """C20's compile-time half: "an idle arena can be moved to another thread and used or dropped there" (and is never
    shared): the programs of Borrow.tla that contain a thread statement, for every arena variant."""
    return run_c05(tier, seed, only_threads=True)

def run_c05(tier, seed, only_threads=False):
    t0 = time.time()
    bindir = build_crate("dbg")
    depsdir = os.path.join(bindir, "deps")
    rlibs = sorted(glob.glob(os.path.join(depsdir, "libbumpalo-*.rlib")), key=os.path.getmtime)
    if not rlibs:
        return dict(name="borrow", fails=[], tool_error="bumpalo rlib not found in " + depsdir)
    rlib = rlibs[-1]
    a2 = sorted(glob.glob(os.path.join(depsdir, "liballocator_api2-*.rlib")), key=os.path.getmtime)
    if a2:
        API2[:] = ["--extern", "allocator_api2=" + a2[-1]]
    cfgs = ["Borrow_quick", "Borrow_quick1", "Borrow_quick2", "Borrow_quick3"] if tier == "quick" else ["Borrow_thorough"]
    if only_threads:
        cfgs = ["Borrow_quick", "Borrow_quick1"]
    cfg = "+".join(cfgs)
    probes = []
    r = None
    for c in cfgs:
        rr = tlc.model_check("Borrow", c, workers=1, timeout=1800, mem="6g", tags=("PROBE",))
        if rr["error"] or rr["violated"]:
            return dict(name="borrow", fails=[], tool_error="Borrow.tla (%s): %s %s" % (c, rr["error"], rr["violated"]))
        probes += rr["printed"]["PROBE"]
        if r is None:
            r = rr
        else:
            r["distinct"] += rr["distinct"]
            r["generated"] += rr["generated"]
    progs = []
    seen = set()
    for t in probes:
        key = json.dumps(t[1], sort_keys=True)
        if key in seen:
            continue
        seen.add(key)
        if only_threads and not any(st["s"] in THREAD_STMTS for st in t[1]):
            continue
        for new in arena_variants(t[1]):
            progs.append((t[1], t[2], new))
    # cache by rlib content + probe set
    h = hashlib.sha256(open(rlib, "rb").read() + json.dumps(progs, sort_keys=True).encode() +
                       open(__file__.replace(".pyc", ".py"), "rb").read()).hexdigest()[:32]
    c = cache_get("c05-" + h)
    if c is None:
        outdir = os.path.join(WORK, "probes-%d" % os.getpid())
        os.makedirs(outdir, exist_ok=True)
        jobs = [(i, render(p, new), depsdir, rlib, outdir) for i, (p, _, new) in enumerate(progs)]
        res = {}
        with cf.ThreadPoolExecutor(max_workers=NCPU) as ex:
            for idx, ok, codes, other in ex.map(compile_probe, jobs):
                res[idx] = (ok, codes, other)
        shutil.rmtree(outdir, ignore_errors=True)
        c = dict(res={str(k): v for k, v in res.items()})
        cache_put("c05-" + h, c)
    fails, samples, tool = [], [], None
    agree = 0
    rejected = 0
    for i, (p, reason, new) in enumerate(progs):
        ok, codes, other = c["res"][str(i)]
        if other:
            tool = "rustc failed without an error code on probe %d: %s" % (i, other)
            continue
        if reason == "dontcare":
            agree += 1
            continue
        model_ok = reason == "ok"
        if not ok:
            rejected += 1
        if model_ok == ok:
            agree += 1
            if len(samples) < 4 and (i % 997 == 3 or (not ok and len(samples) < 2)):
                samples.append(dict(program=p, arena=new, model=reason, rustc="accepts" if ok else "rejects " + ",".join(codes)))
            continue
        formula = "MisuseMustBeRejected" if not model_ok else "OrdinaryPatternMustCompile"
        if only_threads:
            formula = "ArenaNeverSharedBetweenThreads" if not model_ok else "IdleArenaMovesBetweenThreads"
        fails.append(dict(property="C20" if only_threads else "C05", formula=formula, op=new + ": " + " ".join(st["s"] + (":" + st["k"] if st["k"] else "") + (str(st["t"]) if st["t"] else "") for st in p),
                          p=i, i=-1, ma=0, witness=dict(model=reason, rustc_ok=ok, codes=codes), source="Borrow", gen=cfg, profile="dbg",
                          driver="rustc", _prog=dict(statements=p, arena=new, rust=render(p, new))))
    return dict(name="borrow-threads" if only_threads else "borrow", fails=fails, tool_error=tool, samples=samples, states=r["distinct"], transitions=r["generated"],
                traces=len(progs), counts=dict(probes=len(progs), agree=agree, rustc_rejected=rejected),
                summary="%d probe programs from Borrow.tla compiled against the working tree; %d agree" % (len(progs), agree),
                wall=time.time() - t0)

run_c05.compile_only = True
run_c20.compile_only = True
