"""Unbounded part of (A) for the fast-path arithmetic: spec/apalache/FastPathInd.tla is checked with Apalache
(symbolic, unbounded integers): base case Init => IndInv and one inductive step per action, Alloc and GrowLast
split by request alignment (one SMT problem per value).  spec/FastPathEquiv.tla (TLC) ties FastPathInd's own
copy of the fast-path formula to ArenaCore!FastAddr, which is what the trace spec binds to the code.
A failure here is a defect of the model, not a verdict about the code: it is reported as a tool error."""
import os, re, time, hashlib, shutil, concurrent.futures as cf
from .common import *
from . import tlc

ALIGNS = [1, 2, 4, 8, 16, 32, 64, 128, 256, 512, 1024, 2048, 4096]
DIR = SPEC

def one(args):
    name, extra, timeout = args
    out = os.path.join(WORK, "apalache", name)
    shutil.rmtree(out, ignore_errors=True)
    os.makedirs(out, exist_ok=True)
    cmd = ["apalache-mc", "check", "--out-dir=" + out, "--inv=IndInv"] + extra + ["FastPathInd.tla"]
    rc, o, dt = run(cmd, cwd=DIR, timeout=timeout, env={"JVM_ARGS": "-Xmx4g"})
    ok = rc == 0 and "The outcome is: NoError" in o
    shutil.rmtree(out, ignore_errors=True)
    return name, ok, rc, dt, ("" if ok else o[-600:])

def run_fastpath(tier, seed):
    t0 = time.time()
    src = open(os.path.join(DIR, "FastPathInd.tla"), "rb").read() + open(os.path.join(SPEC, "FastPathEquiv.tla"), "rb").read() \
          + open(os.path.join(SPEC, "ArenaCore.tla"), "rb").read() + open(__file__, "rb").read()
    key = "apalache-%s-%s" % (tier, hashlib.sha256(src).hexdigest()[:24])
    c = cache_get(key)
    if c is None:
        jobs = [("base", ["--cinit=CI1", "--init=Init", "--next=Next", "--length=0"], 600)]
        for a in ("Reset", "DeallocLast"):
            jobs.append(("step-" + a, ["--cinit=CI1", "--init=IndInit", "--next=" + a, "--length=1"], 900))
        if tier == "thorough":
            jobs.append(("step-ShrinkLast", ["--cinit=CI1", "--init=IndInit", "--next=ShrinkLast", "--length=1"], 1800))
            for al in ALIGNS:
                jobs.append(("step-Alloc-%d" % al, ["--cinit=CI%d" % al, "--init=IndInit", "--next=Alloc", "--length=1"], 1800))
                jobs.append(("step-GrowLast-%d" % al, ["--cinit=CI%d" % al, "--init=IndInit", "--next=GrowLast", "--length=1"], 1800))
        res = []
        with cf.ThreadPoolExecutor(max_workers=max(2, NCPU // 3)) as ex:
            for r in ex.map(one, jobs):
                res.append(r)
        eq = tlc.model_check("FastPathEquiv", "FastPathEquiv", workers=4, timeout=900, mem="4g")
        c = dict(res=res, eq=dict(error=eq["error"], violated=eq["violated"], distinct=eq["distinct"], generated=eq["generated"]))
        if all(r[1] for r in res) and not eq["error"] and not eq["violated"]:
            cache_put(key, c)
    bad = [r for r in c["res"] if not r[1]]
    tool = None
    if bad:
        tool = "Apalache: inductive obligation(s) not discharged: " + "; ".join("%s rc=%s %s" % (r[0], r[2], r[4][-200:]) for r in bad[:3])
    if c["eq"]["error"] or c["eq"]["violated"]:
        tool = "FastPathEquiv.tla: %s %s" % (c["eq"]["error"], c["eq"]["violated"])
    n = len(c["res"])
    return dict(name="apalache-fastpath", fails=[], tool_error=tool, states=c["eq"]["distinct"], transitions=c["eq"]["generated"], traces=0,
                samples=[dict(apalache_obligation=r[0], discharged=r[1], seconds=round(r[3], 1)) for r in c["res"][:3]],
                counts=dict(obligations=n, discharged=n - len(bad)),
                summary="FastPathInd.tla: %d/%d inductive obligations discharged by Apalache over unbounded integers (%s tier); "
                        "FastPathEquiv.tla: its fast-path formula equals ArenaCore!FastAddr on %d states" % (n - len(bad), n, tier, c["eq"]["distinct"]),
                wall=time.time() - t0)
