//! String driver: programs over `bumpalo::collections::String` and `std::string::String`
//! (same interpreter), one event per call with the text after the call (as code points
//! if it is valid UTF-8, plus the raw bytes), results and panic/no-panic.

use crate::coll::{tick, Ledger, Rg, LG};
use crate::rec;
use bumpalo::Bump;
use serde::{Deserialize, Serialize};
use std::panic::{catch_unwind, AssertUnwindSafe};

#[derive(Serialize, Deserialize, Clone, Debug, PartialEq)]
#[serde(tag = "op")]
pub enum SOp {
    New { cap: i64 },
    FromStr { s: Vec<u32> },
    Push { c: u32 },
    PushStr { s: Vec<u32> },
    Pop,
    Insert { i: i64, c: u32 },
    InsertStr { i: i64, s: Vec<u32> },
    Remove { i: i64 },
    Truncate { n: i64 },
    Clear,
    /// retain(|c| c as u32 % m != 0)
    Retain { m: u32 },
    /// drain(range), take `take` chars, then drop (or forget) the Drain
    Drain { r: Rg, take: usize, forget: bool, #[serde(default)] back: usize },
    ReplaceRange { r: Rg, s: Vec<u32> },
    SplitOff { at: i64 },
    Extend { s: Vec<u32> },
    CloneStr,
    /// &s[range] (panics on non-boundaries)
    Slice { r: Rg },
    Reserve { n: i64, exact: bool },
    ShrinkToFit,
    Write { s: Vec<u32> },
    IntoBumpStr,
    FromUtf8 { b: Vec<u8> },
    FromUtf8Lossy { b: Vec<u8> },
    FromUtf16 { u: Vec<u16> },
    /// Extend with pieces of another shape: 0 &str, 1 the twin's own String, 2 &char (pieces' chars), 3 Cow<str>, 4 std String
    ExtendStrs { parts: Vec<Vec<u32>>, kind: u8 },
    /// `s + &t` (assign = false) or `s += &t`
    Add { s: Vec<u32>, assign: bool },
    /// into_bytes() and from_utf8() back
    IntoBytesRoundTrip,
    /// from_iter_in / FromIterator<char>
    FromIter { s: Vec<u32> },
    /// unsafe from_utf8_unchecked over the encoding of `s`
    FromUtf8Unchecked { s: Vec<u32> },
    /// make_ascii_uppercase through a mutable view: 0 as_mut_str, 1 DerefMut, 2 BorrowMut, 3 IndexMut<range>
    AsciiUpper { via: u8, r: Rg },
    /// unsafe as_mut_vec().push(ascii byte)
    AsMutVecPush { c: u32 },
    /// every read-only view and comparison against `o` must agree with the same on as_str()
    Views { o: Vec<u32> },
    PanicAt { n: i64 },
    /// bumpalo only: forbid (on = true) or allow the arena to obtain more memory; growth then fails with an
    /// unwinding panic, after which the string must still be valid UTF-8
    ArenaNoGrow { on: bool },
}

#[derive(Serialize, Deserialize, Clone, Debug)]
pub struct SProgram {
    pub ops: Vec<SOp>,
    #[serde(default)]
    pub tag: String,
}

#[derive(Serialize, Clone, Debug, Default)]
pub struct SEvent {
    pub p: usize,
    pub i: usize,
    pub im: String,
    pub op: String,
    pub a: i64,
    pub b: i64,
    pub flag: i64,
    pub rg: [i64; 4],
    pub s: Vec<i64>,     // char arguments (code points)
    pub inb: Vec<i64>,   // byte / u16 input of the decoders
    pub res: String,     // ok | panic | err
    pub ret: Vec<i64>,   // returned chars (code points)
    pub retn: i64,
    pub retm: i64,
    pub text: Vec<i64>,  // text after the call as code points (valid UTF-8 only)
    pub bytes: Vec<i64>, // raw bytes after the call
    pub utf8: u8,        // 1 if the bytes are valid UTF-8
    pub alive: u8,
    pub other: Vec<i64>, // second string produced by the call (split_off, clone, decoders)
    pub otherok: u8,
    pub len: i64,
    pub cap: i64,
    pub cap0: i64,
    pub moved: u8,
    pub pp: u8,
    pub nogrow: u8,     // 1 while the arena is forbidden to obtain more memory (bumpalo twin only)
    pub tag: String,
    pub msg: String,
}

fn sbase(op: &str) -> SEvent {
    SEvent { op: op.into(), a: -1, b: -1, flag: -1, retn: -1, retm: -1, len: -1, cap: -1, cap0: -1, res: "ok".into(), utf8: 1, ..Default::default() }
}

fn ub(x: i64) -> usize {
    if x < 0 {
        usize::MAX
    } else {
        x as usize
    }
}

fn st(cs: &[u32]) -> std::string::String {
    cs.iter().map(|&c| char::from_u32(c).unwrap_or('?')).collect()
}

fn cps(s: &str) -> Vec<i64> {
    s.chars().map(|c| c as u32 as i64).collect()
}

macro_rules! sinterp {
    ($modname:ident, $im:expr, $S:ty) => {
        pub mod $modname {
            use super::*;

            pub struct State<'b> {
                pub bump: &'b Bump,
                pub s: Option<$S>,
                pub out: Vec<SEvent>,
                pub p: usize,
                pub tag: String,
                pub nogrow: bool,
            }

            impl<'b> State<'b> {
                fn call<F: FnOnce(&mut Self, &mut SEvent)>(&mut self, mut ev: SEvent, f: F) {
                    ev.nogrow = self.nogrow as u8;
                    ev.p = self.p;
                    ev.i = self.out.len();
                    ev.im = $im.into();
                    ev.tag = self.tag.clone();
                    let pp0 = LG.with(|l| l.borrow().panicked);
                    let ptr0 = self.s.as_ref().map(|x| x.as_ptr() as usize);
                    if let Some(x) = self.s.as_ref() {
                        ev.cap0 = x.capacity().min(i32::MAX as usize) as i64;
                    }
                    rec::begin();
                    let r = catch_unwind(AssertUnwindSafe(|| f(self, &mut ev)));
                    let _ga = rec::end();
                    rec::clear_panicking();
                    let msg = rec::take_panic_msg();
                    if r.is_err() {
                        ev.res = "panic".into();
                        ev.msg = msg.chars().take(120).collect();
                    }
                    ev.pp = (LG.with(|l| l.borrow().panicked) && !pp0) as u8;
                    if let Some(x) = self.s.as_ref() {
                        ev.alive = 1;
                        let b: &[u8] = x.as_bytes();
                        ev.bytes = b.iter().map(|&x| x as i64).collect();
                        match std::str::from_utf8(b) {
                            Ok(t) => {
                                ev.utf8 = 1;
                                ev.text = cps(t);
                            }
                            Err(_) => ev.utf8 = 0,
                        }
                        ev.len = x.len() as i64;
                        ev.cap = x.capacity().min(i32::MAX as usize) as i64;
                        ev.moved = (ptr0.is_some() && ptr0 != Some(x.as_ptr() as usize)) as u8;
                    }
                    self.out.push(ev);
                }

                pub fn step(&mut self, op: &SOp) {
                    match op.clone() {
                        SOp::New { cap } => {
                            let mut ev = sbase("new");
                            ev.a = cap;
                            self.call(ev, |s, _| {
                                s.s = Some(snew!($modname, s.bump, cap));
                            });
                        }
                        SOp::FromStr { s: cs } => {
                            let mut ev = sbase("from_str");
                            ev.s = cs.iter().map(|&c| c as i64).collect();
                            let t = st(&cs);
                            self.call(ev, |s, _| {
                                s.s = Some(sfrom!($modname, s.bump, &t));
                            });
                        }
                        SOp::Push { c } => {
                            let mut ev = sbase("push");
                            ev.s = vec![c as i64];
                            self.call(ev, |s, _| {
                                if let Some(x) = s.s.as_mut() {
                                    x.push(char::from_u32(c).unwrap());
                                }
                            });
                        }
                        SOp::PushStr { s: cs } => {
                            let mut ev = sbase("push_str");
                            ev.s = cs.iter().map(|&c| c as i64).collect();
                            let t = st(&cs);
                            self.call(ev, |s, _| {
                                if let Some(x) = s.s.as_mut() {
                                    x.push_str(&t);
                                }
                            });
                        }
                        SOp::Pop => {
                            let ev = sbase("pop");
                            self.call(ev, |s, ev| {
                                if let Some(x) = s.s.as_mut() {
                                    if let Some(c) = x.pop() {
                                        ev.ret.push(c as u32 as i64);
                                    }
                                }
                            });
                        }
                        SOp::Insert { i, c } => {
                            let mut ev = sbase("insert");
                            ev.a = i;
                            ev.s = vec![c as i64];
                            self.call(ev, |s, _| {
                                if let Some(x) = s.s.as_mut() {
                                    x.insert(ub(i), char::from_u32(c).unwrap());
                                }
                            });
                        }
                        SOp::InsertStr { i, s: cs } => {
                            let mut ev = sbase("insert_str");
                            ev.a = i;
                            ev.s = cs.iter().map(|&c| c as i64).collect();
                            let t = st(&cs);
                            self.call(ev, |s, _| {
                                if let Some(x) = s.s.as_mut() {
                                    x.insert_str(ub(i), &t);
                                }
                            });
                        }
                        SOp::Remove { i } => {
                            let mut ev = sbase("remove");
                            ev.a = i;
                            self.call(ev, |s, ev| {
                                if let Some(x) = s.s.as_mut() {
                                    let c = x.remove(ub(i));
                                    ev.ret.push(c as u32 as i64);
                                }
                            });
                        }
                        SOp::Truncate { n } => {
                            let mut ev = sbase("truncate");
                            ev.a = n;
                            self.call(ev, |s, _| {
                                if let Some(x) = s.s.as_mut() {
                                    x.truncate(ub(n));
                                }
                            });
                        }
                        SOp::Clear => {
                            let ev = sbase("clear");
                            self.call(ev, |s, _| {
                                if let Some(x) = s.s.as_mut() {
                                    x.clear();
                                }
                            });
                        }
                        SOp::Retain { m } => {
                            let mut ev = sbase("retain");
                            ev.a = m as i64;
                            self.call(ev, |s, _| {
                                if let Some(x) = s.s.as_mut() {
                                    x.retain(|c| {
                                        tick();
                                        (c as u32) % m != 0
                                    });
                                }
                            });
                        }
                        SOp::Drain { r, take, forget, back } => {
                            let mut ev = sbase("drain");
                            ev.rg = [r.sk as i64, r.s, r.ek as i64, r.e];
                            ev.a = take as i64;
                            ev.b = back as i64;
                            ev.flag = forget as i64;
                            self.call(ev, |s, ev| {
                                if let Some(x) = s.s.as_mut() {
                                    let mut d = x.drain(r.bounds());
                                    for _ in 0..take {
                                        if let Some(c) = d.next() {
                                            ev.ret.push(c as u32 as i64);
                                        }
                                    }
                                    for _ in 0..back {
                                        if let Some(c) = d.next_back() {
                                            ev.ret.push(c as u32 as i64);
                                        }
                                    }
                                    if forget {
                                        std::mem::forget(d);
                                    }
                                }
                            });
                        }
                        SOp::ReplaceRange { r, s: cs } => {
                            let mut ev = sbase("replace_range");
                            ev.rg = [r.sk as i64, r.s, r.ek as i64, r.e];
                            ev.s = cs.iter().map(|&c| c as i64).collect();
                            let t = st(&cs);
                            self.call(ev, |s, _| {
                                if let Some(x) = s.s.as_mut() {
                                    x.replace_range(r.bounds(), &t);
                                }
                            });
                        }
                        SOp::SplitOff { at } => {
                            let mut ev = sbase("split_off");
                            ev.a = at;
                            self.call(ev, |s, ev| {
                                if let Some(x) = s.s.as_mut() {
                                    let o = x.split_off(ub(at));
                                    ev.other = cps(&o);
                                    ev.otherok = 1;
                                }
                            });
                        }
                        SOp::Extend { s: cs } => {
                            let mut ev = sbase("extend");
                            ev.s = cs.iter().map(|&c| c as i64).collect();
                            self.call(ev, |s, _| {
                                if let Some(x) = s.s.as_mut() {
                                    x.extend(cs.iter().map(|&c| {
                                        tick();
                                        char::from_u32(c).unwrap()
                                    }));
                                }
                            });
                        }
                        SOp::CloneStr => {
                            let ev = sbase("clone");
                            self.call(ev, |s, ev| {
                                if let Some(x) = s.s.as_ref() {
                                    let o = x.clone();
                                    ev.other = cps(&o);
                                    ev.otherok = 1;
                                }
                            });
                        }
                        SOp::Slice { r } => {
                            let mut ev = sbase("slice");
                            ev.rg = [r.sk as i64, r.s, r.ek as i64, r.e];
                            if r.sk == 2 {
                                return; // no Index impl for ranges with an excluded start
                            }
                            self.call(ev, |s, ev| {
                                if let Some(x) = s.s.as_ref() {
                                    let (a, b) = (ub(r.s), ub(r.e));
                                    let t: &str = match (r.sk, r.ek) {
                                        (0, 0) => &x[..],
                                        (0, 2) => &x[..b],
                                        (0, _) => &x[..=b],
                                        (_, 0) => &x[a..],
                                        (_, 2) => &x[a..b],
                                        (_, _) => &x[a..=b],
                                    };
                                    ev.other = cps(t);
                                    ev.otherok = 1;
                                }
                            });
                        }
                        SOp::Reserve { n, exact } => {
                            let mut ev = sbase(if exact { "reserve_exact" } else { "reserve" });
                            ev.a = n;
                            self.call(ev, |s, _| {
                                if let Some(x) = s.s.as_mut() {
                                    if exact {
                                        x.reserve_exact(ub(n))
                                    } else {
                                        x.reserve(ub(n))
                                    }
                                }
                            });
                        }
                        SOp::ShrinkToFit => {
                            let ev = sbase("shrink_to_fit");
                            self.call(ev, |s, _| {
                                if let Some(x) = s.s.as_mut() {
                                    x.shrink_to_fit();
                                }
                            });
                        }
                        SOp::Write { s: cs } => {
                            let mut ev = sbase("write_fmt");
                            ev.s = cs.iter().map(|&c| c as i64).collect();
                            let t = st(&cs);
                            self.call(ev, |s, _| {
                                use std::fmt::Write;
                                if let Some(x) = s.s.as_mut() {
                                    write!(x, "{}", t).unwrap();
                                }
                            });
                        }
                        SOp::IntoBumpStr => {
                            let ev = sbase("into_bump_str");
                            self.call(ev, |s, ev| {
                                if let Some(x) = s.s.take() {
                                    let t: &str = sinto!($modname, x);
                                    ev.other = cps(t);
                                    ev.otherok = 1;
                                }
                            });
                        }
                        SOp::FromUtf8 { b } => {
                            let mut ev = sbase("from_utf8");
                            ev.inb = b.iter().map(|&x| x as i64).collect();
                            self.call(ev, |s, ev| {
                                let r = sfromutf8!($modname, s.bump, &b);
                                match r {
                                    Ok(t) => {
                                        ev.other = cps(&t);
                                        ev.otherok = 1;
                                    }
                                    Err((upto, elen, same)) => {
                                        ev.res = "err".into();
                                        ev.retn = upto as i64;
                                        ev.retm = elen;
                                        ev.flag = same as i64;
                                    }
                                }
                            });
                        }
                        SOp::FromUtf8Lossy { b } => {
                            let mut ev = sbase("from_utf8_lossy");
                            ev.inb = b.iter().map(|&x| x as i64).collect();
                            self.call(ev, |s, ev| {
                                let t: Vec<u8> = slossy!($modname, s.bump, &b);
                                match std::str::from_utf8(&t) {
                                    Ok(t) => {
                                        ev.other = cps(t);
                                        ev.otherok = 1;
                                    }
                                    Err(_) => {
                                        // the decoder produced a String that is not UTF-8
                                        ev.otherok = 0;
                                        ev.utf8 = 0;
                                        ev.bytes = t.iter().map(|&x| x as i64).collect();
                                    }
                                }
                            });
                        }
                        SOp::FromUtf16 { u } => {
                            let mut ev = sbase("from_utf16");
                            ev.inb = u.iter().map(|&x| x as i64).collect();
                            self.call(ev, |s, ev| match sutf16!($modname, s.bump, &u) {
                                Ok(t) => {
                                    ev.other = cps(&t);
                                    ev.otherok = 1;
                                }
                                Err(_) => ev.res = "err".into(),
                            });
                        }
                        SOp::ExtendStrs { parts, kind } => {
                            let mut ev = sbase("extend_strs");
                            ev.a = kind as i64;
                            ev.s = parts.iter().flat_map(|p| p.iter().map(|&c| c as i64)).collect();
                            let ts: Vec<std::string::String> = parts.iter().map(|p| st(p)).collect();
                            self.call(ev, |s, _| {
                                let bump = s.bump;
                                if let Some(x) = s.s.as_mut() {
                                    match kind {
                                        0 => x.extend(ts.iter().map(|t| { tick(); t.as_str() })),
                                        1 => x.extend(ts.iter().map(|t| { tick(); let o: $S = sfrom!($modname, bump, t); o })),
                                        2 => {
                                            let cs: Vec<char> = ts.iter().flat_map(|t| t.chars()).collect();
                                            x.extend(cs.iter().map(|c| { tick(); c }))
                                        }
                                        3 => x.extend(ts.iter().enumerate().map(|(i, t)| {
                                            tick();
                                            if i % 2 == 0 { std::borrow::Cow::Borrowed(t.as_str()) } else { std::borrow::Cow::Owned(t.clone()) }
                                        })),
                                        _ => x.extend(ts.iter().map(|t| { tick(); t.clone() })),
                                    }
                                }
                            });
                        }
                        SOp::Add { s: cs, assign } => {
                            let mut ev = sbase(if assign { "add_assign" } else { "add" });
                            ev.s = cs.iter().map(|&c| c as i64).collect();
                            let t = st(&cs);
                            self.call(ev, |s, _| {
                                if assign {
                                    if let Some(x) = s.s.as_mut() {
                                        *x += &t;
                                    }
                                } else if let Some(x) = s.s.take() {
                                    s.s = Some(x + &t);
                                }
                            });
                        }
                        SOp::IntoBytesRoundTrip => {
                            let ev = sbase("into_bytes_roundtrip");
                            self.call(ev, |s, ev| {
                                if let Some(x) = s.s.take() {
                                    let want: Vec<u8> = x.as_bytes().to_vec();
                                    let v = x.into_bytes();
                                    ev.retn = (&v[..] == &want[..]) as i64;
                                    s.s = Some(<$S>::from_utf8(v).ok().unwrap());
                                } else {
                                    ev.retn = 1;
                                }
                            });
                        }
                        SOp::FromIter { s: cs } => {
                            let mut ev = sbase("from_iter");
                            ev.s = cs.iter().map(|&c| c as i64).collect();
                            self.call(ev, |s, _| {
                                let it = cs.iter().map(|&c| { tick(); char::from_u32(c).unwrap() });
                                s.s = Some(sfromiter!($modname, s.bump, it));
                            });
                        }
                        SOp::FromUtf8Unchecked { s: cs } => {
                            let mut ev = sbase("from_utf8_unchecked");
                            ev.s = cs.iter().map(|&c| c as i64).collect();
                            let t = st(&cs);
                            self.call(ev, |s, _| {
                                s.s = Some(sunchecked!($modname, s.bump, t.as_bytes()));
                            });
                        }
                        SOp::AsciiUpper { via, r } => {
                            let mut ev = sbase("ascii_upper");
                            ev.a = via as i64;
                            ev.rg = if via == 3 { [r.sk as i64, r.s, r.ek as i64, r.e] } else { [0, 0, 0, 0] };
                            if via == 3 && r.sk == 2 {
                                return; // no IndexMut impl for ranges with an excluded start
                            }
                            self.call(ev, |s, _| {
                                if let Some(x) = s.s.as_mut() {
                                    match via {
                                        0 => x.as_mut_str().make_ascii_uppercase(),
                                        1 => { let t: &mut str = &mut *x; t.make_ascii_uppercase() }
                                        2 => { let t: &mut str = std::borrow::BorrowMut::borrow_mut(x); t.make_ascii_uppercase() }
                                        _ => {
                                            let (a, b) = (ub(r.s), ub(r.e));
                                            let t: &mut str = match (r.sk, r.ek) {
                                                (0, 0) => &mut x[..],
                                                (0, 2) => &mut x[..b],
                                                (0, _) => &mut x[..=b],
                                                (_, 0) => &mut x[a..],
                                                (_, 2) => &mut x[a..b],
                                                (_, _) => &mut x[a..=b],
                                            };
                                            t.make_ascii_uppercase()
                                        }
                                    }
                                }
                            });
                        }
                        SOp::AsMutVecPush { c } => {
                            let mut ev = sbase("as_mut_vec_push");
                            ev.s = vec![(c & 0x7f) as i64];
                            self.call(ev, |s, _| {
                                if let Some(x) = s.s.as_mut() {
                                    unsafe { x.as_mut_vec().push((c & 0x7f) as u8) };
                                }
                            });
                        }
                        SOp::Views { o } => {
                            let mut ev = sbase("str_views");
                            ev.s = o.iter().map(|&c| c as i64).collect();
                            let ot = st(&o);
                            self.call(ev, |s, ev| {
                                let _g = rec::pause();
                                let bump = s.bump;
                                let mut bad: i64 = 0;
                                let mut chk = |i: u32, ok: bool| {
                                    if !ok {
                                        bad |= 1 << i;
                                    }
                                };
                                if let Some(x) = s.s.as_ref() {
                                    use std::borrow::Borrow;
                                    let want: std::string::String = std::string::String::from_utf8_lossy(x.as_bytes()).into_owned();
                                    let w: &str = want.as_str();
                                    let y: $S = sfrom!($modname, bump, &ot);
                                    let o: &str = ot.as_str();
                                    chk(0, x.as_str() == w && &**x == w && x.len() == w.len() && x.is_empty() == w.is_empty());
                                    chk(1, AsRef::<str>::as_ref(x) == w && AsRef::<[u8]>::as_ref(x) == w.as_bytes() && Borrow::<str>::borrow(x) == w);
                                    chk(2, x.as_bytes() == w.as_bytes());
                                    chk(3, (*x == y) == (w == o) && (*x != y) == (w != o));
                                    chk(4, (*x == *o) == (w == o) && (*o == *x) == (w == o));
                                    chk(5, (*x == o) == (w == o) && (o == *x) == (w == o));
                                    chk(6, (*x != *o) == (w != o) && (*x != o) == (w != o));
                                    chk(7, sviews_cross!($modname, x, ot, w));
                                    chk(8, format!("{}", x) == format!("{}", w) && format!("{:?}", x) == format!("{:?}", w));
                                    chk(9, format!("{:>7}|{:<6}|{:^9.2}", x, x, x) == format!("{:>7}|{:<6}|{:^9.2}", w, w, w));
                                    chk(10, crate::coll::hash_of(x) == crate::coll::hash_of(&w));
                                    chk(11, x.chars().rev().eq(w.chars().rev()) && x.char_indices().count() == w.chars().count());
                                    chk(12, x.capacity() >= x.len());
                                }
                                ev.retn = bad;
                            });
                        }
                        SOp::ArenaNoGrow { on } => {
                            if $im == "bump" {
                                self.nogrow = on;
                                // fill the current chunk, then cap the arena at what it holds
                                if on {
                                    let cap = self.bump.chunk_capacity();
                                    if cap > 0 {
                                        let _ = self.bump.try_alloc_layout(std::alloc::Layout::from_size_align(cap, 1).unwrap());
                                    }
                                    self.bump.set_allocation_limit(Some(self.bump.allocated_bytes()));
                                } else {
                                    self.bump.set_allocation_limit(None);
                                }
                            }
                        }
                        SOp::PanicAt { n } => {
                            LG.with(|l| {
                                let mut l = l.borrow_mut();
                                l.panic_at = if n < 0 { -1 } else { l.ticks + n };
                                l.panicked = false;
                            });
                        }
                    }
                }
            }

            pub fn run(p: usize, prog: &SProgram) -> Vec<SEvent> {
                rec::reset_slice();
                LG.with(|l| *l.borrow_mut() = Ledger { panic_at: -1, ..Default::default() });
                let bump = Bump::new();
                let mut st = State { bump: &bump, s: None, out: Vec::new(), p, tag: prog.tag.clone(), nogrow: false };
                for op in &prog.ops {
                    st.step(op);
                }
                let o = std::mem::take(&mut st.out);
                let out = o.clone();
                drop(o);
                drop(st);
                out
            }
        }
    };
}

macro_rules! snew {
    (bumps, $bump:expr, $cap:expr) => {
        if $cap < 0 { bumpalo::collections::String::new_in($bump) } else { bumpalo::collections::String::with_capacity_in(ub($cap), $bump) }
    };
    (stds, $bump:expr, $cap:expr) => {
        if $cap < 0 { std::string::String::new() } else { std::string::String::with_capacity(ub($cap)) }
    };
}
macro_rules! sfrom {
    (bumps, $bump:expr, $t:expr) => { bumpalo::collections::String::from_str_in($t, $bump) };
    (stds, $bump:expr, $t:expr) => { std::string::String::from($t.as_str()) };
}
macro_rules! sfromiter {
    (bumps, $bump:expr, $it:expr) => { bumpalo::collections::String::from_iter_in($it, $bump) };
    (stds, $bump:expr, $it:expr) => { $it.collect::<std::string::String>() };
}
macro_rules! sunchecked {
    (bumps, $bump:expr, $b:expr) => {{
        let mut v = bumpalo::collections::Vec::new_in($bump);
        v.extend_from_slice_copy($b);
        unsafe { bumpalo::collections::String::from_utf8_unchecked(v) }
    }};
    (stds, $bump:expr, $b:expr) => { unsafe { std::string::String::from_utf8_unchecked($b.to_vec()) } };
}
// comparisons with std's String and Cow<str> (both directions)
macro_rules! sviews_cross {
    (bumps, $x:expr, $ot:expr, $w:expr) => {{
        let c: std::borrow::Cow<str> = std::borrow::Cow::Borrowed($ot.as_str());
        (($ot == *$x) == ($w == $ot.as_str())) && ((*$x == $ot) == ($w == $ot.as_str())) && (($ot != *$x) == ($w != $ot.as_str()))
            && ((c == *$x) == ($w == $ot.as_str())) && ((*$x == c) == ($w == $ot.as_str())) && ((c != *$x) == ($w != $ot.as_str()))
    }};
    (stds, $x:expr, $ot:expr, $w:expr) => {{
        let c: std::borrow::Cow<str> = std::borrow::Cow::Borrowed($ot.as_str());
        (($ot == *$x) == ($w == $ot.as_str())) && ((c == *$x) == ($w == $ot.as_str())) && ((*$x == c) == ($w == $ot.as_str()))
    }};
}
macro_rules! sinto {
    (bumps, $x:expr) => { $x.into_bump_str() };
    (stds, $x:expr) => { $x.leak() };
}
macro_rules! sfromutf8 {
    (bumps, $bump:expr, $b:expr) => {{
        let mut v = bumpalo::collections::Vec::new_in($bump);
        v.extend_from_slice_copy($b);
        match bumpalo::collections::String::from_utf8(v) {
            Ok(s) => Ok(std::string::String::from_utf8_lossy(s.as_bytes()).into_owned()),
            Err(e) => {
                let u = e.utf8_error();
                let same = e.as_bytes() == &$b[..];
                let same = same && &e.into_bytes()[..] == &$b[..];
                Err((u.valid_up_to(), u.error_len().map(|x| x as i64).unwrap_or(-1), same))
            }
        }
    }};
    (stds, $bump:expr, $b:expr) => {{
        match std::string::String::from_utf8($b.to_vec()) {
            Ok(s) => Ok(s),
            Err(e) => {
                let u = e.utf8_error();
                let same = e.as_bytes() == &$b[..];
                Err((u.valid_up_to(), u.error_len().map(|x| x as i64).unwrap_or(-1), same))
            }
        }
    }};
}
macro_rules! slossy {
    (bumps, $bump:expr, $b:expr) => { bumpalo::collections::String::from_utf8_lossy_in($b, $bump).as_bytes().to_vec() };
    (stds, $bump:expr, $b:expr) => { std::string::String::from_utf8_lossy($b).into_owned().into_bytes() };
}
macro_rules! sutf16 {
    (bumps, $bump:expr, $u:expr) => { bumpalo::collections::String::from_utf16_in($u, $bump).map(|s| std::string::String::from_utf8_lossy(s.as_bytes()).into_owned()).map_err(|_| ()) };
    (stds, $bump:expr, $u:expr) => { std::string::String::from_utf16($u).map_err(|_| ()) };
}

sinterp!(bumps, "bump", bumpalo::collections::String<'b>);
sinterp!(stds, "std", std::string::String);

pub fn run_both(p: usize, prog: &SProgram) -> Vec<SEvent> {
    let mut out = bumps::run(p, prog);
    out.extend(stds::run(p, prog));
    out
}
