//! Boundary-size driver (C19): every size-taking entry point of Bump, Vec and String
//! with element sizes {0,1,3,8,4096} and counts on both sides of every overflow boundary.
//! Numbers are logged as base-4096 digit arrays (little endian) because TLC's integers
//! are 32-bit.

use crate::rec;
use bumpalo::collections::{String as BString, Vec as BVec};
use bumpalo::Bump;
use serde::Serialize;
use std::alloc::Layout;
use std::panic::{catch_unwind, AssertUnwindSafe};

pub fn digits(mut x: u128) -> Vec<i64> {
    let mut d = Vec::new();
    for _ in 0..8 {
        d.push((x & 0xFFF) as i64);
        x >>= 12;
    }
    d
}

#[derive(Serialize, Clone, Debug, Default)]
pub struct ZEvent {
    pub p: usize,
    pub i: usize,
    pub ma: usize,
    pub op: String,
    pub es: i64,         // element size
    pub align: i64,
    pub fall: u8,
    pub n: Vec<i64>,     // requested count / capacity / additional (digits)
    pub len0: Vec<i64>,  // length before (Vec/String ops)
    pub res: String,     // ok | err | panic
    pub cap: Vec<i64>,   // count claimed on success (slice length / capacity)
    pub room: Vec<i64>,  // bytes really available at the returned address inside the arena's memory
    pub nonnull: u8,
    pub msg: String,
}

const UMAX: u128 = u64::MAX as u128;
const IMAX: u128 = i64::MAX as u128;

pub fn boundary_counts(es: u128) -> Vec<u128> {
    let mut v: Vec<u128> = vec![0, 1, 2, IMAX - 1, IMAX, IMAX + 1, UMAX - 1, UMAX, UMAX / 2, UMAX / 2 + 1, 1 << 62, 1 << 63, (1 << 63) - 4096, (1 << 63) - 15, (1 << 63) - 16];
    if es > 1 {
        for b in [IMAX, UMAX] {
            v.push(b / es - 1);
            v.push(b / es);
            v.push(b / es + 1);
        }
        v.push(UMAX / es * 2);
    }
    v.retain(|&x| x <= UMAX);
    v.sort();
    v.dedup();
    v
}

/// bytes available from `p` to the end of the chunk that contains it (0 if outside arena memory)
fn room<const M: usize>(b: &Bump<M>, p: usize) -> u128 {
    for (ptr, len) in unsafe { b.iter_allocated_chunks_raw() } {
        let (lo, hi) = (ptr as usize, ptr as usize + len);
        if p >= lo && p <= hi {
            return (hi - p) as u128;
        }
    }
    0
}

#[derive(Clone, Copy)]
pub struct Big4k(pub [u64; 512]);
impl Default for Big4k {
    fn default() -> Self {
        Big4k([0; 512])
    }
}

struct Ctx {
    p: usize,
    out: Vec<ZEvent>,
}

impl Ctx {
    fn run<F: FnOnce(&mut ZEvent)>(&mut self, mut ev: ZEvent, f: F) {
        ev.p = self.p;
        ev.i = self.out.len();
        ev.nonnull = 1;
        rec::begin();
        let r = catch_unwind(AssertUnwindSafe(|| f(&mut ev)));
        let _ = rec::end();
        rec::clear_panicking();
        let msg = rec::take_panic_msg();
        if r.is_err() {
            ev.res = "panic".into();
            ev.msg = msg.chars().take(100).collect();
        }
        self.out.push(ev);
    }
}

fn ev(op: &str, ma: usize, es: usize, align: usize, fall: bool, n: u128) -> ZEvent {
    ZEvent { op: op.into(), ma, es: es as i64, align: align as i64, fall: fall as u8, n: digits(n), len0: digits(0), res: "ok".into(),
             cap: digits(0), room: digits(0), ..Default::default() }
}

fn typed<const M: usize, T: Copy + Default + 'static>(c: &mut Ctx) {
    let es = std::mem::size_of::<T>();
    let al = std::mem::align_of::<T>();
    for n in boundary_counts(es as u128) {
        let nn = n as usize;
        let huge_zst = es == 0 && n > 1000;
        if !huge_zst {
            // slice fills (they call the initialiser n times, so only where the reservation must fail or n is small)
            for (name, fall) in [("alloc_slice_fill_with", false), ("try_alloc_slice_fill_with", true), ("alloc_slice_fill_default", false),
                                 ("try_alloc_slice_fill_copy", true), ("alloc_slice_try_fill_with", false), ("try_alloc_slice_fill_iter", true)] {
                c.run(ev(name, M, es, al, fall, n), |e| {
                    let b = Bump::<M>::with_min_align();
                    let r: Result<(usize, usize), ()> = match name {
                        "alloc_slice_fill_with" => { let s = b.alloc_slice_fill_with(nn, |_| T::default()); Ok((s.as_ptr() as usize, s.len())) }
                        "try_alloc_slice_fill_with" => b.try_alloc_slice_fill_with(nn, |_| T::default()).map(|s| (s.as_ptr() as usize, s.len())).map_err(|_| ()),
                        "alloc_slice_fill_default" => { let s = b.alloc_slice_fill_default::<T>(nn); Ok((s.as_ptr() as usize, s.len())) }
                        "try_alloc_slice_fill_copy" => b.try_alloc_slice_fill_copy(nn, T::default()).map(|s| (s.as_ptr() as usize, s.len())).map_err(|_| ()),
                        "alloc_slice_try_fill_with" => { let s = b.alloc_slice_try_fill_with(nn, |_| Ok::<T, ()>(T::default())).unwrap(); Ok((s.as_ptr() as usize, s.len())) }
                        _ => b.try_alloc_slice_fill_iter((0..nn).map(|_| T::default())).map(|s| (s.as_ptr() as usize, s.len())).map_err(|_| ()),
                    };
                    match r {
                        Ok((p, l)) => { e.cap = digits(l as u128); e.room = digits(room(&b, p)); e.nonnull = (p != 0) as u8; }
                        Err(()) => e.res = "err".into(),
                    }
                });
            }
        }
        // Vec: with_capacity_in, reserve*, try_reserve* on an empty vector and on one of length 3
        for (name, fall) in [("vec_with_capacity_in", false), ("vec_reserve", false), ("vec_reserve_exact", false), ("vec_try_reserve", true), ("vec_try_reserve_exact", true)] {
            for len0 in [0usize, 3] {
                if name == "vec_with_capacity_in" && len0 != 0 { continue; }
                let mut e0 = ev(name, M, es, al, fall, n);
                e0.len0 = digits(len0 as u128);
                c.run(e0, |e| {
                    let b = Bump::new();
                    let mut v: BVec<T> = if name == "vec_with_capacity_in" { BVec::with_capacity_in(nn, &b) } else { BVec::new_in(&b) };
                    for _ in 0..len0 { v.push(T::default()); }
                    let ok = match name {
                        "vec_reserve" => { v.reserve(nn); true }
                        "vec_reserve_exact" => { v.reserve_exact(nn); true }
                        "vec_try_reserve" => v.try_reserve(nn).is_ok(),
                        "vec_try_reserve_exact" => v.try_reserve_exact(nn).is_ok(),
                        _ => true,
                    };
                    if ok {
                        e.cap = digits(v.capacity() as u128);
                        e.room = digits(room(&b, v.as_ptr() as usize));
                    } else {
                        e.res = "err".into();
                    }
                });
            }
        }
    }
}

pub fn run_all(p0: usize) -> Vec<ZEvent> {
    let mut c = Ctx { p: p0, out: Vec::new() };
    rec::reset_slice();
    typed::<1, ()>(&mut c);
    typed::<1, u8>(&mut c);
    typed::<1, [u8; 3]>(&mut c);
    typed::<1, u64>(&mut c);
    typed::<16, u64>(&mut c);
    typed::<1, Big4k>(&mut c);
    typed::<8, [u8; 3]>(&mut c);
    // raw layouts: every valid Layout with sizes at the boundaries
    for ma in [1usize, 16] {
        for align in [1usize, 8, 4096] {
            for n in boundary_counts(1) {
                if n > IMAX + 1 - align as u128 { continue; } // not a valid Layout
                let l = match Layout::from_size_align(n as usize, align) { Ok(l) => l, Err(_) => continue };
                for fall in [true, false] {
                    c.run(ev(if fall { "try_alloc_layout" } else { "alloc_layout" }, ma, 1, align, fall, n), |e| {
                        let go = |p: Result<std::ptr::NonNull<u8>, ()>, rm: &dyn Fn(usize) -> u128, e: &mut ZEvent| match p {
                            Ok(p) => { e.cap = digits(n); e.room = digits(rm(p.as_ptr() as usize)); }
                            Err(()) => e.res = "err".into(),
                        };
                        if ma == 1 {
                            let b = Bump::<1>::with_min_align();
                            let r = if fall { b.try_alloc_layout(l).map_err(|_| ()) } else { Ok(b.alloc_layout(l)) };
                            go(r, &|p| room(&b, p), e);
                        } else {
                            let b = Bump::<16>::with_min_align();
                            let r = if fall { b.try_alloc_layout(l).map_err(|_| ()) } else { Ok(b.alloc_layout(l)) };
                            go(r, &|p| room(&b, p), e);
                        }
                    });
                }
            }
        }
        // constructors with capacity
        for n in boundary_counts(1) {
            for fall in [true, false] {
                c.run(ev(if fall { "try_with_capacity" } else { "with_capacity" }, ma, 1, ma, fall, n), |e| {
                    if ma == 1 {
                        let r = if fall { Bump::<1>::try_with_min_align_and_capacity(n as usize).map_err(|_| ()) } else { Ok(Bump::<1>::with_min_align_and_capacity(n as usize)) };
                        match r { Ok(b) => { e.cap = digits(n); e.room = digits(b.chunk_capacity() as u128); } Err(()) => e.res = "err".into() }
                    } else {
                        let r = if fall { Bump::<16>::try_with_min_align_and_capacity(n as usize).map_err(|_| ()) } else { Ok(Bump::<16>::with_min_align_and_capacity(n as usize)) };
                        match r { Ok(b) => { e.cap = digits(n); e.room = digits(b.chunk_capacity() as u128); } Err(()) => e.res = "err".into() }
                    }
                });
            }
        }
    }
    // String
    for n in boundary_counts(1) {
        for (name, len0) in [("string_with_capacity_in", 0usize), ("string_reserve", 0), ("string_reserve", 5), ("string_reserve_exact", 5)] {
            let mut e0 = ev(name, 1, 1, 1, false, n);
            e0.len0 = digits(len0 as u128);
            c.run(e0, |e| {
                let b = Bump::new();
                let mut s = if name == "string_with_capacity_in" { BString::with_capacity_in(n as usize, &b) } else { BString::new_in(&b) };
                for _ in 0..len0 { s.push('a'); }
                match name {
                    "string_reserve" => s.reserve(n as usize),
                    "string_reserve_exact" => s.reserve_exact(n as usize),
                    _ => {}
                }
                e.cap = digits(s.capacity() as u128);
                e.room = digits(room(&b, s.as_ptr() as usize));
            });
        }
    }
    // extend_from_slices_copy with zero-sized slices whose lengths sum past usize::MAX
    let zs = |n: usize| -> &'static [()] { unsafe { std::slice::from_raw_parts(std::ptr::NonNull::<()>::dangling().as_ptr(), n) } };
    for (a, b2) in [(usize::MAX, usize::MAX), (usize::MAX, 1), (usize::MAX / 2 + 1, usize::MAX / 2 + 1), (5, 7), (usize::MAX, 0)] {
        let mut e0 = ev("vec_extend_from_slices_copy", 1, 0, 1, false, a as u128 + b2 as u128);
        e0.len0 = digits(0);
        c.run(e0, |e| {
            let b = Bump::new();
            let mut v: BVec<()> = BVec::new_in(&b);
            v.extend_from_slices_copy(&[zs(a), zs(b2)]);
            e.cap = digits(v.len() as u128);
        });
        // resize / extend of ZSTs up to the boundary
    }
    for n in [usize::MAX, usize::MAX - 1] {
        let mut e0 = ev("vec_zst_push_beyond_max", 1, 0, 1, false, n as u128 + 2);
        e0.len0 = digits(n as u128);
        c.run(e0, |e| {
            let b = Bump::new();
            let mut v: BVec<()> = BVec::new_in(&b);
            unsafe { v.set_len(n) };
            v.push(());
            v.push(());
            e.cap = digits(v.len() as u128);
            unsafe { v.set_len(0) };
        });
    }
    let o = std::mem::take(&mut c.out);
    let out = o.clone();
    drop(o);
    out
}
