//! Write guard for the crate's shared static empty chunk (C20, "never written").
//!
//! The footer-store hook only sees stores of the bump pointer. To see *every* store into the static -- also a
//! same-value store into `prev` or `allocated_bytes`, which no comparison of results can reveal -- the page(s)
//! holding it are made read-only while an operation runs on an arena that has not obtained memory yet. A write
//! fault inside the static is counted; the page is then made writable again so that the instruction can complete.
//! Faults elsewhere on the page (other statics live there too) just lift the protection; faults anywhere else are
//! handed back to the previous handler. Linux / x86_64 only (hand-declared libc surface); a no-op elsewhere.

use std::sync::atomic::{AtomicUsize, Ordering::SeqCst};

static LO: AtomicUsize = AtomicUsize::new(0);      // protected range (page aligned)
static HI: AtomicUsize = AtomicUsize::new(0);
static S_LO: AtomicUsize = AtomicUsize::new(0);    // the static itself
static S_HI: AtomicUsize = AtomicUsize::new(0);
static HITS: AtomicUsize = AtomicUsize::new(0);
static LAST_OFF: AtomicUsize = AtomicUsize::new(0);
static DEPTH: AtomicUsize = AtomicUsize::new(0);
static INSTALLED: AtomicUsize = AtomicUsize::new(0);

#[cfg(all(target_os = "linux", target_arch = "x86_64"))]
mod sys {
    use super::*;
    pub const PROT_READ: i32 = 1;
    pub const PROT_WRITE: i32 = 2;
    const SIGSEGV: i32 = 11;
    const SA_SIGINFO: i32 = 4;
    const SA_NODEFER: i32 = 0x4000_0000;
    const SA_ONSTACK: i32 = 0x0800_0000;

    #[repr(C)]
    #[derive(Clone, Copy)]
    pub struct SigAction {
        pub sa_sigaction: usize,
        pub sa_mask: [u64; 16],
        pub sa_flags: i32,
        pub sa_restorer: usize,
    }
    #[repr(C)]
    pub struct SigInfo {
        pub si_signo: i32,
        pub si_errno: i32,
        pub si_code: i32,
        _pad: i32,
        pub si_addr: usize,
    }
    extern "C" {
        pub fn mprotect(addr: *mut u8, len: usize, prot: i32) -> i32;
        fn sigaction(signum: i32, act: *const SigAction, old: *mut SigAction) -> i32;
    }
    static mut OLD: SigAction = SigAction { sa_sigaction: 0, sa_mask: [0; 16], sa_flags: 0, sa_restorer: 0 };

    extern "C" fn on_segv(_sig: i32, info: *mut SigInfo, _ctx: *mut u8) {
        unsafe {
            let a = (*info).si_addr;
            let (lo, hi) = (LO.load(SeqCst), HI.load(SeqCst));
            if lo != 0 && a >= lo && a < hi {
                if a >= S_LO.load(SeqCst) && a < S_HI.load(SeqCst) {
                    HITS.fetch_add(1, SeqCst);
                    LAST_OFF.store(a - S_LO.load(SeqCst), SeqCst);
                }
                // let the store complete
                mprotect(lo as *mut u8, hi - lo, PROT_READ | PROT_WRITE);
                return;
            }
            // not ours: give the signal back to whoever had it (std's stack-overflow handler or the default action)
            let old = std::ptr::addr_of!(OLD).read();
            sigaction(SIGSEGV, &old, std::ptr::null_mut());
        }
    }

    pub fn install() {
        unsafe {
            let act = SigAction {
                sa_sigaction: on_segv as extern "C" fn(i32, *mut SigInfo, *mut u8) as usize,
                sa_mask: [0; 16],
                sa_flags: SA_SIGINFO | SA_NODEFER | SA_ONSTACK,
                sa_restorer: 0,
            };
            let mut old = SigAction { sa_sigaction: 0, sa_mask: [0; 16], sa_flags: 0, sa_restorer: 0 };
            if sigaction(SIGSEGV, &act, &mut old) == 0 {
                std::ptr::addr_of_mut!(OLD).write(old);
                INSTALLED.store(1, SeqCst);
            }
        }
    }
    pub fn set(prot: i32) {
        let (lo, hi) = (LO.load(SeqCst), HI.load(SeqCst));
        if lo != 0 {
            unsafe {
                mprotect(lo as *mut u8, hi - lo, prot);
            }
        }
    }
}

/// Install the handler and remember where the static lives.
pub fn install() {
    #[cfg(all(target_os = "linux", target_arch = "x86_64"))]
    {
        let (addr, _) = bumpalo::__verif::sentinel();
        let size = bumpalo::__verif::footer_size();
        S_LO.store(addr, SeqCst);
        S_HI.store(addr + size, SeqCst);
        LO.store(addr & !4095, SeqCst);
        HI.store((addr + size + 4095) & !4095, SeqCst);
        sys::install();
    }
}

/// Make the static read-only for the duration of one operation (nestable, process-wide).
pub fn protect() {
    #[cfg(all(target_os = "linux", target_arch = "x86_64"))]
    if INSTALLED.load(SeqCst) == 1 && DEPTH.fetch_add(1, SeqCst) == 0 {
        sys::set(sys::PROT_READ);
    }
}

pub fn unprotect() {
    #[cfg(all(target_os = "linux", target_arch = "x86_64"))]
    if INSTALLED.load(SeqCst) == 1 && DEPTH.fetch_sub(1, SeqCst) == 1 {
        sys::set(sys::PROT_READ | sys::PROT_WRITE);
    }
}

/// Writes into the static seen since the last call: (count, byte offset of the last one).
pub fn take_hits() -> (usize, usize) {
    (HITS.swap(0, SeqCst), LAST_OFF.load(SeqCst))
}
