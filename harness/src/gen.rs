//! Program generators for the arena driver: deterministic enumerators derived
//! from the model's case analysis, plus seeded random programs.

use crate::arena::{Clos, MultiProgram, Op, Program};
use rand::rngs::StdRng;
use rand::{Rng, SeedableRng};

pub const MAS: [usize; 5] = [1, 2, 4, 8, 16];

fn l(size: usize, align: usize) -> Op {
    Op::Layout { size, align, fallible: true }
}
fn li(size: usize, align: usize) -> Op {
    Op::Layout { size, align, fallible: false }
}

/// The operation alphabet of the history enumerator. Sizes sit on the model's
/// case boundaries: 0, 1, around MinAlign, exact fit of the first chunk (448 usable
/// with the default geometry), fit+1, page-crossing, beyond a chunk.
pub fn alphabet() -> Vec<Op> {
    use Op::*;
    vec![
        l(0, 1),
        l(1, 1),
        l(3, 2),
        l(8, 8),
        l(24, 8),
        l(100, 4),
        l(440, 1),
        l(448, 1),
        l(449, 1),
        l(5000, 16),
        l(8, 64),
        l(0, 64),
        l(0, 4096),
        l(40, 32),
        li(17, 1),
        Val { ty: 4, with: false, fallible: false },
        Val { ty: 9, with: true, fallible: true },
        Val { ty: 0, with: true, fallible: false },
        SliceCopy { ty: 2, len: 5, fallible: false },
        SliceClone { ty: 3, len: 3, fallible: true },
        Str { len: 11, fallible: false },
        Fill { ty: 3, len: 7, how: 0, fallible: false },
        Fill { ty: 4, len: 3, how: 3, fallible: true },
        Fill { ty: 1, len: 9, how: 2, fallible: false },
        TryWith { ty: 4, ety: 2, ok: true, clos: Clos::Nothing, fallible: false },
        TryWith { ty: 4, ety: 2, ok: false, clos: Clos::Nothing, fallible: false },
        TryWith { ty: 4, ety: 1, ok: false, clos: Clos::Keep(10), fallible: true },
        TryWith { ty: 1, ety: 2, ok: false, clos: Clos::Release(10), fallible: true },
        TryWith { ty: 10, ety: 2, ok: false, clos: Clos::Nothing, fallible: true },
        TryWith { ty: 11, ety: 3, ok: false, clos: Clos::Nothing, fallible: false },
        TryWith { ty: 0, ety: 0, ok: false, clos: Clos::Zst, fallible: true },
        TryFill { ty: 3, len: 6, fail_at: 2, iter: false },
        TryFill { ty: 4, len: 4, fail_at: -1, iter: true },
        TryFill { ty: 4, len: 100, fail_at: 99, iter: false },
        Allocate { size: 16, align: 4, zeroed: true },
        Dealloc { b: usize::MAX },
        Dealloc { b: 0 },
        Grow { b: usize::MAX, size: 9, align: 1, zeroed: false },
        Grow { b: usize::MAX, size: 600, align: 8, zeroed: true },
        Grow { b: 0, size: 5, align: 2, zeroed: true },
        Shrink { b: usize::MAX, size: 1000, align: 1 },
        Shrink { b: usize::MAX, size: 3, align: 1 },
        Shrink { b: usize::MAX, size: 60, align: 16 },
        Shrink { b: 0, size: 50, align: 2 },
        Reset,
        Limit { lim: Some(0) },
        Limit { lim: Some(100) },
        Limit { lim: Some(2000) },
        Limit { lim: None },
        Iter,
        Again,
        FillCap { parts: 1 },
        FillCap { parts: 3 },
    ]
}

pub fn starts() -> Vec<Vec<Op>> {
    vec![
        vec![Op::New { cap: None, fallible: false }],
        vec![Op::New { cap: Some(1), fallible: true }],
        vec![Op::New { cap: Some(449), fallible: false }],
        vec![Op::New { cap: Some(100), fallible: false }, l(50, 1)],
    ]
}

/// All sequences of length `n` over the alphabet (optionally thinned to 1/`stride`),
/// for every MIN_ALIGN and every start.
/// Zero-sized element types through every slice initialiser: the initialiser (closure, iterator, Clone, Default)
/// must still be called once per element, in order, even though no byte is written.
pub fn zinit() -> Vec<Program> {
    use Op::*;
    let mut out = Vec::new();
    for &ma in MAS.iter() {
        for fallible in [false, true] {
            for len in [1usize, 5, 64] {
                let mut ops = vec![New { cap: None, fallible: false }, l(3, 1)];
                for how in 0..5u8 {
                    ops.push(Fill { ty: 0, len, how, fallible });
                }
                ops.push(SliceCopy { ty: 0, len, fallible });
                ops.push(SliceClone { ty: 0, len, fallible });
                ops.push(TryFill { ty: 0, len, fail_at: -1, iter: false });
                ops.push(TryFill { ty: 0, len, fail_at: -1, iter: true });
                ops.push(TryFill { ty: 0, len, fail_at: (len as i64) - 1, iter: false });
                ops.push(TryFill { ty: 0, len, fail_at: 0, iter: true });
                ops.push(Val { ty: 0, with: true, fallible });
                ops.push(l(8, 8));
                out.push(Program { ma, ops, tag: "zinit".into() });
            }
        }
    }
    out
}

pub fn history(n: usize, stride: usize, seed: u64) -> Vec<Program> {
    let alpha = alphabet();
    let starts = starts();
    let mut out = Vec::new();
    let k = alpha.len();
    let total = k.pow(n as u32);
    let mut rng = StdRng::seed_from_u64(seed);
    let mut idx = 0usize;
    let offset = if stride > 1 { rng.gen_range(0..stride) } else { 0 };
    for code in 0..total {
        if stride > 1 && (code + offset) % stride != 0 {
            continue;
        }
        let mut c = code;
        let mut ops = Vec::new();
        for _ in 0..n {
            ops.push(alpha[c % k].clone());
            c /= k;
        }
        // rotate MIN_ALIGN and start over the programs; every (ma,start) pair sees every
        // 20th program, and for n <= 2 all of them
        for (mi, &ma) in MAS.iter().enumerate() {
            for (si, st) in starts.iter().enumerate() {
                if n > 2 && (idx + mi * 4 + si) % 20 != 0 {
                    continue;
                }
                let mut all = st.clone();
                all.extend(ops.iter().cloned());
                out.push(Program { ma, ops: all, tag: format!("history{}", n) });
            }
        }
        idx += 1;
    }
    out
}

/// For each MIN_ALIGN x finger residue (reached by a padding allocation) x size x align:
/// one allocation, then one more of a few size classes.
pub fn offset(thorough: bool) -> Vec<Program> {
    let mut out = Vec::new();
    let sizes: Vec<usize> = if thorough {
        (0..=40).chain([63, 64, 65, 100, 383, 384, 385, 447, 448, 449, 4031, 4032, 4033, 8192, 1 << 20]).collect()
    } else {
        vec![0, 1, 2, 3, 7, 8, 9, 15, 16, 17, 31, 33, 40, 447, 448, 449, 4033, 1 << 20]
    };
    let aligns: Vec<usize> = vec![1, 2, 4, 8, 16, 32, 64, 128, 256, 512, 1024, 2048, 4096];
    let pads: Vec<usize> = if thorough { (0..64).collect() } else { vec![0, 1, 2, 3, 5, 8, 13, 16, 24, 31, 33, 48, 63] };
    for &ma in &MAS {
        for &pad in &pads {
            // a program covers all (size, align) pairs of one (ma, pad): each pair on a fresh arena
            // would be too slow, so we reset between pairs (reset itself is covered elsewhere)
            let mut ops = vec![Op::New { cap: None, fallible: false }];
            for (si, &size) in sizes.iter().enumerate() {
                for (ai, &align) in aligns.iter().enumerate() {
                    if !thorough && (si + ai + pad) % 3 != 0 {
                        continue;
                    }
                    ops.push(Op::Reset);
                    if pad > 0 {
                        ops.push(l(pad, 1));
                    }
                    ops.push(l(size, align));
                    ops.push(l(8, 8));
                    ops.push(l(1, 1));
                }
            }
            out.push(Program { ma, ops, tag: "offset".into() });
        }
        // the same on fresh chunk-less arenas (first allocation, incl. zero-sized and over-aligned)
        for &size in &[0usize, 1, 8, 448, 449] {
            for &align in &aligns {
                out.push(Program {
                    ma,
                    ops: vec![Op::New { cap: None, fallible: false }, l(size, align), l(0, align), l(1, 1)],
                    tag: "offset-fresh".into(),
                });
            }
        }
    }
    out
}

fn rand_op(rng: &mut StdRng, alpha: &[Op]) -> Op {
    use Op::*;
    match rng.gen_range(0..100) {
        0..=39 => {
            let size = match rng.gen_range(0..10) {
                0 => 0,
                1..=5 => rng.gen_range(1..64),
                6..=7 => rng.gen_range(64..600),
                8 => rng.gen_range(600..6000),
                _ => rng.gen_range(6000..70000),
            };
            let hi = if rng.gen_bool(0.8) { 5 } else { 13 };
            let align = 1usize << rng.gen_range(0..hi);
            Layout { size, align, fallible: rng.gen_bool(0.7) }
        }
        40..=47 => Dealloc { b: if rng.gen_bool(0.6) { usize::MAX } else { rng.gen_range(0..1000) } },
        48..=57 => Grow {
            b: if rng.gen_bool(0.6) { usize::MAX } else { rng.gen_range(0..1000) },
            size: rng.gen_range(0..200),
            align: 1 << rng.gen_range(0..5),
            zeroed: rng.gen_bool(0.5),
        },
        58..=66 => Shrink {
            b: if rng.gen_bool(0.6) { usize::MAX } else { rng.gen_range(0..1000) },
            size: rng.gen_range(0..200),
            align: 1 << rng.gen_range(0..5),
        },
        67..=69 => Reset,
        70..=72 => Limit {
            lim: if rng.gen_bool(0.3) { None } else { Some(rng.gen_range(0..20000)) },
        },
        73..=74 => Iter,
        75..=76 => FillCap { parts: rng.gen_range(1..4) },
        77..=78 => Again,
        _ => alpha[rng.gen_range(0..alpha.len())].clone(),
    }
}

pub fn random(count: usize, len: usize, seed: u64) -> Vec<Program> {
    let alpha = alphabet();
    let mut rng = StdRng::seed_from_u64(seed ^ 0xA11CE);
    let mut out = Vec::new();
    for i in 0..count {
        let ma = MAS[i % 5];
        let mut ops = Vec::new();
        ops.push(match rng.gen_range(0..4) {
            0 => Op::New { cap: Some(rng.gen_range(1..5000)), fallible: rng.gen_bool(0.5) },
            _ => Op::New { cap: None, fallible: false },
        });
        if rng.gen_bool(0.3) {
            ops.push(Op::Place { kind: rng.gen_range(0..3), k: rng.gen_range(0..256) * 16 });
        }
        for _ in 0..len {
            ops.push(rand_op(&mut rng, &alpha));
        }
        out.push(Program { ma, ops, tag: "random".into() });
    }
    out
}

/// uniform histories (C10): one alignment (<= 16, >= MIN_ALIGN), sizes that are multiples of it;
/// chunk crossings, capacities, reset-and-refill, failed initialisers (in-chunk and new-chunk)
/// and failed slice fills in between; iteration at several points.
pub fn uniform(thorough: bool) -> Vec<Program> {
    let mut out = Vec::new();
    for &align in &[1usize, 2, 4, 8, 16] {
        for &ma in MAS.iter().filter(|&&m| m <= align) {
            for &k in &[1usize, 2, 3, 5] {
                let size = k * align;
                // element type of the failing slice fill: its alignment must equal `align`
                let fill_ty: u8 = match align { 1 => 1, 2 => 2, 4 => 3, 8 => 4, _ => 5 };
                let a = || l(size, align);
                let many = |n: usize| -> Vec<Op> { (0..n).map(|_| l(size, align)).collect() };
                let fail_fill_small = Op::TryFill { ty: fill_ty, len: 3, fail_at: 1, iter: false };
                let fail_fill_big = Op::TryFill { ty: fill_ty, len: 600 / align.max(1) + 7, fail_at: 2, iter: true };
                let starts: Vec<Op> = vec![Op::New { cap: None, fallible: false }, Op::New { cap: Some(size * 7), fallible: false }, Op::New { cap: Some(1), fallible: true }];
                for (si, st) in starts.iter().enumerate() {
                    if !thorough && (si + k + align) % 2 == 0 {
                        continue;
                    }
                    let fill_chunk = 448 / size + 2; // crosses the first chunk
                    let mut variants: Vec<Vec<Op>> = Vec::new();
                    variants.push([vec![st.clone()], many(3), vec![Op::Iter], many(fill_chunk), vec![Op::Iter]].concat());
                    variants.push([vec![st.clone()], many(fill_chunk), vec![Op::Iter, Op::Reset, Op::Iter], many(4), vec![Op::Iter]].concat());
                    variants.push([vec![st.clone()], many(2), vec![fail_fill_small.clone(), Op::Iter, a(), fail_fill_big.clone(), Op::Iter], many(3), vec![Op::Iter]].concat());
                    // failed fill that forced a new chunk, then reset, then refill
                    variants.push([vec![st.clone()], many(448 / size - 1), vec![fail_fill_big.clone(), Op::Iter, Op::Reset, Op::Iter], many(3), vec![Op::Iter]].concat());
                    variants.push([vec![st.clone()], many(2), vec![fail_fill_big.clone(), Op::Reset], many(2), vec![Op::Iter, Op::Reset, Op::Reset, Op::Iter]].concat());
                    if align == 8 {
                        // Result<u64, ErrTok<u64>> has size 16, align 8: a failed alloc_try_with fits a uniform align-8 history
                        let tw = Op::TryWith { ty: 4, ety: 2, ok: false, clos: Clos::Nothing, fallible: false };
                        let twbig = Op::TryWith { ty: 10, ety: 2, ok: false, clos: Clos::Nothing, fallible: true };
                        variants.push([vec![st.clone()], many(2), vec![tw.clone(), Op::Iter], many(448 / size), vec![tw.clone(), Op::Iter]].concat());
                        if size % 8 == 0 {
                            variants.push([vec![st.clone()], many(3), vec![twbig.clone(), Op::Iter, Op::Reset, Op::Iter], many(2), vec![Op::Iter]].concat());
                        }
                    }
                    for ops in variants {
                        out.push(Program { ma, ops, tag: "uniform".into() });
                    }
                }
            }
        }
    }
    out
}

/// fault enumerator (C09, C03): short histories re-run with every refusal pattern of the global
/// allocator (the k-th request only, everything from the k-th on, everything of at least s bytes)
pub fn fault(thorough: bool, seed: u64) -> Vec<Program> {
    use Op::*;
    let mut rng = StdRng::seed_from_u64(seed ^ 0xFA17);
    let bodies: Vec<Vec<Op>> = vec![
        vec![l(8, 8), l(600, 1), l(5000, 16), l(1, 1)],
        vec![l(0, 64), l(0, 1), l(100, 4)],
        vec![li(17, 1), li(1000, 2)],
        vec![l(8, 8), Grow { b: usize::MAX, size: 600, align: 8, zeroed: true }, Shrink { b: usize::MAX, size: 3, align: 64 }],
        vec![l(3, 2), TryWith { ty: 10, ety: 2, ok: false, clos: Clos::Nothing, fallible: true }, Again],
        vec![l(3, 2), TryWith { ty: 4, ety: 2, ok: true, clos: Clos::Keep(600), fallible: true }, l(1, 1)],
        vec![l(440, 1), TryFill { ty: 4, len: 100, fail_at: 99, iter: false }, l(1, 1)],
        vec![l(440, 1), Val { ty: 9, with: true, fallible: true }, SliceCopy { ty: 4, len: 100, fallible: true }],
        vec![Limit { lim: Some(10) }, l(0, 64), l(0, 32)],
        vec![Limit { lim: Some(300) }, l(0, 4096), l(1, 1), l(200, 1)],
        vec![Limit { lim: Some(2000) }, l(600, 1), l(600, 1), Reset, l(2000, 1)],
        vec![l(500, 1), Reset, l(500, 1), l(500, 1), Iter],
        vec![Fill { ty: 4, len: 100, how: 0, fallible: true }, Str { len: 700, fallible: true }, Allocate { size: 4000, align: 32, zeroed: true }],
        // the fault strikes in the middle of the history: a full chunk, then an operation that needs a new one
        vec![l(441, 1), Fault { kind: 4, k: 0 }, Shrink { b: usize::MAX, size: 1, align: 64 }, Grow { b: usize::MAX, size: 100, align: 1, zeroed: true }, Fault { kind: 0, k: 0 }, l(1, 1)],
        vec![l(3, 1), l(437, 1), Fault { kind: 4, k: 0 }, Shrink { b: 0, size: 1, align: 16 }, Shrink { b: usize::MAX, size: 5, align: 32 }, l(100, 8), Fault { kind: 0, k: 0 }],
        vec![l(441, 1), Limit { lim: Some(448) }, Shrink { b: usize::MAX, size: 1, align: 64 }, Grow { b: usize::MAX, size: 100, align: 2, zeroed: false }, TryWith { ty: 4, ety: 2, ok: false, clos: Clos::Keep(30), fallible: true }],
        vec![l(445, 1), Fault { kind: 4, k: 0 }, TryWith { ty: 4, ety: 2, ok: true, clos: Clos::Nothing, fallible: true }, TryFill { ty: 4, len: 4, fail_at: -1, iter: false }, Val { ty: 9, with: true, fallible: true }, Fault { kind: 0, k: 0 }, Again],
    ];
    let starts = vec![New { cap: None, fallible: false }, New { cap: Some(300), fallible: true }];
    let mut out = Vec::new();
    for (bi, body) in bodies.iter().enumerate() {
        for st in &starts {
            for &ma in &MAS {
                if !thorough && (bi + ma) % 2 == 1 {
                    continue;
                }
                let mut pats: Vec<(u8, usize)> = vec![(4, 0)];
                for k in 0..6 {
                    pats.push((1, k));
                    pats.push((2, k));
                }
                for s in [64usize, 500, 600, 1100, 4096] {
                    pats.push((3, s));
                }
                for (kind, k) in pats {
                    // the fault policy is armed after the constructor (its own failures are covered by fault-ctor below)
                    let mut ops = vec![st.clone(), Fault { kind, k }];
                    ops.extend(body.iter().cloned());
                    ops.push(Fault { kind: 0, k: 0 });
                    ops.push(l(1, 1));
                    out.push(Program { ma, ops, tag: "fault".into() });
                }
            }
        }
    }
    // constructors under refusal
    for &ma in &MAS {
        for cap in [1usize, 448, 449, 5000, 70000] {
            for fallible in [true, false] {
                out.push(Program { ma, ops: vec![Fault { kind: 4, k: 0 }, New { cap: Some(cap), fallible }, Fault { kind: 0, k: 0 }], tag: "fault-ctor".into() });
            }
        }
    }
    // random placement of a single refusal in random programs
    let alpha = alphabet();
    for i in 0..if thorough { 3000 } else { 300 } {
        let mut ops = vec![New { cap: None, fallible: false }];
        let n = rng.gen_range(3..12);
        let at = rng.gen_range(0..n);
        for j in 0..n {
            if j == at {
                ops.push(Fault { kind: rng.gen_range(1..5), k: rng.gen_range(0..3) });
            }
            ops.push(rand_op(&mut rng, &alpha));
        }
        out.push(Program { ma: MAS[i % 5], ops, tag: "fault-random".into() });
    }
    out
}

/// limit enumerator (C07): limits around what is held and around chunk sizes, in every kind of state
pub fn limit(thorough: bool) -> Vec<Program> {
    use Op::*;
    let mut out = Vec::new();
    let states: Vec<Vec<Op>> = vec![
        vec![New { cap: None, fallible: false }],
        vec![New { cap: Some(449), fallible: false }],
        vec![New { cap: None, fallible: false }, l(100, 1), l(1000, 1)],
        vec![New { cap: None, fallible: false }, l(100, 1), l(1000, 1), Reset],
        vec![New { cap: Some(8192), fallible: true }],
    ];
    // usable bytes held in those states: 0, 960, 448+1984=2432, 1984, 12224
    let held = [0usize, 960, 2432, 1984, 12224];
    for (si, st) in states.iter().enumerate() {
        let h = held[si];
        let mut lims: Vec<usize> = vec![0, 1, 63, 64, 447, 448, 449, 511, 512];
        for d in [1usize, 48, 449, 4096] {
            lims.push(h.saturating_sub(d));
            lims.push(h + d);
        }
        lims.push(h);
        lims.push(h + 2 * h.max(448));
        lims.push(h + 2 * h.max(448) - 1);
        lims.sort();
        lims.dedup();
        for &lim in &lims {
            for &ma in &MAS {
                if !thorough && (lim + ma + si) % 3 != 0 {
                    continue;
                }
                for &(sz, al) in &[(1usize, 1usize), (8, 8), (400, 1), (449, 1), (2000, 8), (5000, 16), (0, 64)] {
                    let mut ops = st.clone();
                    ops.push(Limit { lim: Some(lim) });
                    ops.push(l(sz, al));
                    ops.push(l(sz, al));
                    ops.push(Limit { lim: None });
                    ops.push(l(sz, al));
                    ops.push(Limit { lim: Some(lim) });
                    ops.push(FillCap { parts: 2 });
                    ops.push(l(1, 1));
                    out.push(Program { ma, ops, tag: "limit".into() });
                }
            }
        }
    }
    out
}

/// try-with enumerator (C11): remaining capacity around the slot size x value/error sizes x closure kinds
pub fn trywith(thorough: bool) -> Vec<Program> {
    use Op::*;
    let mut out = Vec::new();
    // (ty, ety): Result slot sizes 1(ZST), 16, ~2008, ~5008
    let tys: Vec<(u8, u8)> = vec![(0, 0), (4, 2), (1, 2), (10, 2), (11, 3), (9, 5), (13, 2), (12, 0)];
    let closs = vec![Clos::Nothing, Clos::Keep(10), Clos::Release(10), Clos::Zst, Clos::Keep(600)];
    for &ma in &MAS {
        for (ti, &(ty, ety)) in tys.iter().enumerate() {
            for (ci, clos) in closs.iter().enumerate() {
                // leave `rem` bytes in the first chunk (448 usable) before the call
                for rem in [448usize, 40, 24, 17, 16, 15, 8, 1, 0] {
                    if !thorough && (rem + ti + ci + ma) % 3 != 0 {
                        continue;
                    }
                    for ok in [false, true] {
                        for fallible in [false, true] {
                            if !thorough && ok && fallible {
                                continue;
                            }
                            let mut ops = vec![New { cap: None, fallible: false }];
                            if rem < 448 {
                                ops.push(l(448 - rem, 1));
                            }
                            ops.push(TryWith { ty, ety, ok, clos: clos.clone(), fallible });
                            ops.push(Again);
                            ops.push(TryWith { ty, ety, ok: false, clos: Clos::Nothing, fallible });
                            ops.push(Again);
                            ops.push(Iter);
                            out.push(Program { ma, ops, tag: "trywith".into() });
                        }
                    }
                }
            }
        }
        for rem in [448usize, 100, 25, 24, 23, 0] {
            for (ty, len, fail_at) in [(3u8, 6usize, 2i64), (4, 100, 99), (1, 30, 0), (0, 5, 3), (5, 2, 1)] {
                for iter in [false, true] {
                    let mut ops = vec![New { cap: None, fallible: false }];
                    if rem < 448 {
                        ops.push(l(448 - rem, 1));
                    }
                    ops.push(TryFill { ty, len, fail_at, iter });
                    ops.push(Again);
                    ops.push(Iter);
                    out.push(Program { ma, ops, tag: "tryfill".into() });
                }
            }
        }
        // the initialiser of one element allocates in the same arena (and keeps / releases it), a later
        // element fails: the failed slice must not take the initialiser's own block with it
        for rem in [448usize, 200, 40, 0] {
            for (ty, len, fail_at, at) in [(3u8, 6usize, 2i64, 0usize), (4, 8, 7, 3), (1, 30, -1, 5), (0, 5, 3, 1), (5, 2, 1, 1), (4, 3, 1, 2)] {
                for clos in [Clos::Keep(9), Clos::Keep(600), Clos::Release(16), Clos::Zst] {
                    for iter in [false, true] {
                        let mut ops = vec![New { cap: None, fallible: false }];
                        if rem < 448 {
                            ops.push(l(448 - rem, 1));
                        }
                        ops.push(TryFillClos { ty, len, fail_at, iter, at, clos: clos.clone() });
                        ops.push(l(64, 1));
                        ops.push(TryFillClos { ty, len, fail_at, iter, at, clos: clos.clone() });
                        ops.push(Again);
                        ops.push(l(100, 8));
                        ops.push(Iter);
                        out.push(Program { ma, ops, tag: "tryfillclos".into() });
                    }
                }
            }
        }
    }
    out
}

/// volume workloads (C18): only chunk acquisitions are logged (Bulk)
pub fn volume(thorough: bool) -> Vec<Program> {
    use Op::*;
    let mut out = Vec::new();
    let totals: Vec<usize> = if thorough { vec![1 << 10, 1 << 16, 1 << 20, 1 << 24, 1 << 26, 1 << 28] } else { vec![1 << 10, 1 << 16, 1 << 20, 1 << 23, 1 << 26] };
    for &ma in &MAS {
        for &(size, align) in &[(1usize, 1usize), (8, 8), (24, 8), (100, 4), (1000, 8), (5000, 16), (70000, 1)] {
            for &total in &totals {
                if total / size.max(1) > if thorough { 3_000_000 } else { 300_000 } {
                    continue;
                }
                if !thorough && (ma + size + total) % 2 == 1 && total < (1 << 24) {
                    continue;
                }
                let count = (total / size).max(1);
                for cap in [None, Some(4096usize)] {
                    out.push(Program { ma, ops: vec![New { cap, fallible: false }, Bulk { size, align, count }], tag: "volume".into() });
                }
            }
        }
        // capacities honoured
        for cap in [1usize, 447, 448, 449, 4031, 4032, 4033, 1 << 20] {
            out.push(Program { ma, ops: vec![New { cap: Some(cap), fallible: false }, FillCap { parts: 1 }, New { cap: Some(cap), fallible: true }, FillCap { parts: 3 }], tag: "capacity".into() });
        }
        // a one-off big block, then small ones: the next chunk must not be smaller
        out.push(Program { ma, ops: vec![New { cap: None, fallible: false }, l(8 << 20, 8), Bulk { size: 1024, align: 8, count: 9000 }], tag: "volume".into() });
    }
    out
}

/// panic-point enumerator for the arena's own callback-taking methods (C16): every callback index
pub fn apanics(thorough: bool) -> Vec<Program> {
    use Op::*;
    let mut out = Vec::new();
    let cands: Vec<(Op, i64)> = vec![
        (Val { ty: 4, with: true, fallible: false }, 1),
        (Val { ty: 9, with: true, fallible: true }, 1),
        (SliceClone { ty: 3, len: 4, fallible: false }, 4),
        (SliceClone { ty: 4, len: 3, fallible: true }, 3),
        (Fill { ty: 3, len: 5, how: 0, fallible: false }, 5),
        (Fill { ty: 4, len: 4, how: 3, fallible: true }, 4),
        (Fill { ty: 1, len: 6, how: 2, fallible: false }, 6),
        (Fill { ty: 4, len: 100, how: 0, fallible: true }, 100),
        (TryWith { ty: 4, ety: 2, ok: true, clos: Clos::Nothing, fallible: false }, 1),
        (TryWith { ty: 10, ety: 2, ok: false, clos: Clos::Nothing, fallible: true }, 1),
        (TryFill { ty: 3, len: 6, fail_at: -1, iter: false }, 6),
        (TryFill { ty: 4, len: 5, fail_at: 4, iter: true }, 5),
    ];
    for &ma in &MAS {
        for (op, ncb) in &cands {
            let mut ks: Vec<i64> = (0..(*ncb).min(4)).collect();
            ks.push(*ncb - 1);
            ks.dedup();
            for k in ks {
                for rem in [448usize, 40, 3] {
                    if !thorough && (rem + ma + k as usize) % 2 == 1 {
                        continue;
                    }
                    let mut ops = vec![New { cap: None, fallible: false }, l(24, 8)];
                    if rem < 448 {
                        ops.push(l(448 - 24 - rem, 1));
                    }
                    ops.push(PanicAtCb { n: k });
                    ops.push(op.clone());
                    ops.push(op.clone());
                    ops.push(Iter);
                    ops.push(Reset);
                    ops.push(op.clone());
                    out.push(Program { ma, ops, tag: "apanics".into() });
                }
            }
        }
    }
    out
}

pub fn by_name(name: &str, tier: &str, seed: u64) -> Vec<Program> {
    let thorough = tier == "thorough";
    match name {
        "history" => {
            let mut v = history(1, 1, seed);
            v.extend(history(2, if thorough { 1 } else { 6 }, seed));
            v.extend(history(3, if thorough { 8 } else { 400 }, seed));
            v
        }
        "history2" => {
            let mut v = history(1, 1, seed);
            v.extend(history(2, 1, seed));
            v
        }
        "offset" => offset(thorough),
        "uniform" => uniform(thorough),
        "zinit" => zinit(),
        "fault" => fault(thorough, seed),
        "limit" => limit(thorough),
        "trywith" => trywith(thorough),
        "volume" => volume(thorough),
        "apanics" => apanics(thorough),
        "random" => random(if thorough { 4000 } else { 300 }, if thorough { 200 } else { 120 }, seed),
        _ => panic!("unknown generator {name}"),
    }
}

// ------------------------------------------------------------ multi-arena programs (C20)

fn short_programs() -> Vec<Vec<Op>> {
    use Op::*;
    let new = New { cap: None, fallible: false };
    vec![
        vec![new.clone(), l(0, 1), l(0, 8)],
        vec![new.clone(), l(8, 8), l(0, 1), Reset],
        vec![new.clone(), l(0, 16), l(500, 1), l(3, 2)],
        vec![New { cap: Some(100), fallible: true }, l(24, 8), Dealloc { b: 0 }, l(0, 4)],
        vec![new.clone(), Reset, l(0, 1), Iter],
        vec![new.clone(), Limit { lim: Some(50) }, l(0, 2), l(60, 1)],
        vec![new.clone(), l(0, 1), Shrink { b: 0, size: 0, align: 1 }, Dealloc { b: 0 }],
        vec![new.clone(), TryWith { ty: 0, ety: 0, ok: false, clos: Clos::Nothing, fallible: true }, l(1, 1)],
        vec![new.clone(), l(5000, 16), l(1, 1), Reset, l(2, 2)],
        vec![new.clone(), l(0, 64), l(0, 4096), l(1, 1)],
        vec![new.clone(), l(0, 32), Iter, l(0, 1)],
    ]
}

fn merges(a: usize, b: usize) -> Vec<Vec<usize>> {
    // all order-preserving interleavings of a steps of arena 0 and b steps of arena 1
    fn rec(a: usize, b: usize, cur: &mut Vec<usize>, out: &mut Vec<Vec<usize>>) {
        if a == 0 && b == 0 {
            out.push(cur.clone());
            return;
        }
        if a > 0 {
            cur.push(0);
            rec(a - 1, b, cur, out);
            cur.pop();
        }
        if b > 0 {
            cur.push(1);
            rec(a, b - 1, cur, out);
            cur.pop();
        }
    }
    let mut out = Vec::new();
    rec(a, b, &mut Vec::new(), &mut out);
    out
}

/// two arenas on one thread in every order-preserving merge, and the same pairs on two threads
pub fn multi(tier: &str, seed: u64) -> Vec<MultiProgram> {
    let thorough = tier == "thorough";
    let progs = short_programs();
    let mut out = Vec::new();
    let mut rng = StdRng::seed_from_u64(seed ^ 0x2020);
    for (i, pa) in progs.iter().enumerate() {
        for (j, pb) in progs.iter().enumerate() {
            if !thorough && (i + 2 * j) % 3 != 0 {
                continue;
            }
            let ma = MAS[(i + j) % 5];
            // +1: the implicit final drop of each arena takes part in the interleaving
            let ms = merges(pa.len() + 1, pb.len() + 1);
            for (k, m) in ms.iter().enumerate() {
                if !thorough && k % 7 != (i + j) % 7 {
                    continue;
                }
                out.push(MultiProgram { ma, arenas: vec![pa.clone(), pb.clone()], threads: vec![0, 0], schedule: m.clone(), tag: "interleave".into() });
            }
            // solo runs for comparison of relative placement are implied: each arena's projection is
            // validated by the single-arena specs; on threads:
            out.push(MultiProgram { ma, arenas: vec![pa.clone(), pb.clone()], threads: vec![1, 2], schedule: vec![], tag: "threads".into() });
            // hand-over: an arena created and used on the main thread, then moved (OnThread) while another
            // thread runs its own arena
            let mut moved = pa.clone();
            moved.push(Op::OnThread { ops: vec![l(8, 8), Op::Reset, l(0, 1)] });
            out.push(MultiProgram { ma, arenas: vec![moved, pb.clone()], threads: vec![0, 0], schedule: vec![], tag: "handover".into() });
        }
    }
    // a refusal of the global allocator in one arena must not change what another arena does
    {
        use Op::*;
        let new = New { cap: None, fallible: false };
        let grow: Vec<Op> = std::iter::once(new.clone()).chain((0..40).map(|_| l(1000, 8))).collect();
        let refused = vec![new.clone(), Fault { kind: 4, k: 0 }, l(40000, 1), Fault { kind: 0, k: 0 }, l(8, 8)];
        let refused2 = vec![new.clone(), l(100, 1), Fault { kind: 3, k: 600 }, l(5000, 1), l(700, 1), Fault { kind: 0, k: 0 }, Reset];
        for &ma in &MAS {
            for r in [&refused, &refused2] {
                // A fails first, then B grows; and interleaved
                let n = r.len() + 1;
                let sched: Vec<usize> = std::iter::repeat(0).take(n).chain(std::iter::repeat(1).take(grow.len() + 1)).collect();
                out.push(MultiProgram { ma, arenas: vec![r.clone(), grow.clone()], threads: vec![0, 0], schedule: sched, tag: "refusal".into() });
                let alt: Vec<usize> = (0..(n + grow.len() + 1)).map(|i| i % 2).collect();
                out.push(MultiProgram { ma, arenas: vec![r.clone(), grow.clone()], threads: vec![0, 0], schedule: alt, tag: "refusal".into() });
                out.push(MultiProgram { ma, arenas: vec![r.clone(), grow.clone()], threads: vec![1, 2], schedule: vec![], tag: "refusal-threads".into() });
            }
        }
    }
    // many threads, random short programs
    for _ in 0..if thorough { 200 } else { 30 } {
        let nt = rng.gen_range(2..5);
        let mut arenas = Vec::new();
        let mut threads = Vec::new();
        for t in 0..nt {
            arenas.push(progs[rng.gen_range(0..progs.len())].clone());
            threads.push(t + 1);
            if rng.gen_bool(0.3) {
                arenas.push(progs[rng.gen_range(0..progs.len())].clone());
                threads.push(t + 1);
            }
        }
        out.push(MultiProgram { ma: MAS[rng.gen_range(0..5)], arenas, threads, schedule: vec![], tag: "threads".into() });
    }
    out
}
