//! arena_driver --gen NAME [--tier quick|thorough] [--seed N] [--shard i/n] --out FILE
//! arena_driver --prog FILE.json --out FILE        (FILE.json: array of programs)
use std::io::Write;
use vh::arena::{self, Program};

fn main() {
    let args: Vec<String> = std::env::args().collect();
    let mut gen = None;
    let mut progf = None;
    let mut tier = "quick".to_string();
    let mut seed = 0u64;
    let mut shard = (0usize, 1usize);
    let mut out = None;
    let mut dump = None;
    let mut i = 1;
    while i < args.len() {
        match args[i].as_str() {
            "--gen" => { gen = Some(args[i + 1].clone()); i += 1 }
            "--prog" => { progf = Some(args[i + 1].clone()); i += 1 }
            "--tier" => { tier = args[i + 1].clone(); i += 1 }
            "--seed" => { seed = args[i + 1].parse().unwrap(); i += 1 }
            "--shard" => {
                let (a, b) = args[i + 1].split_once('/').unwrap();
                shard = (a.parse().unwrap(), b.parse().unwrap());
                i += 1
            }
            "--out" => { out = Some(args[i + 1].clone()); i += 1 }
            "--dump-progs" => { dump = Some(args[i + 1].clone()); i += 1 }
            x => panic!("unknown arg {x}"),
        }
        i += 1;
    }
    let progs: Vec<Program> = if let Some(g) = gen {
        vh::gen::by_name(&g, &tier, seed)
    } else {
        let f = progf.expect("--gen or --prog");
        serde_json::from_str(&std::fs::read_to_string(f).unwrap()).unwrap()
    };
    arena::init();
    let mut w = std::io::BufWriter::new(std::fs::File::create(out.expect("--out")).unwrap());
    let mut dumpw = dump.map(|d| std::io::BufWriter::new(std::fs::File::create(d).unwrap()));
    let mut n = 0usize;
    for (pi, p) in progs.iter().enumerate() {
        if pi % shard.1 != shard.0 {
            continue;
        }
        if let Some(d) = dumpw.as_mut() {
            writeln!(d, "{}", serde_json::json!({"p": pi, "prog": p})).unwrap();
        }
        let evs = arena::run_program(pi, p);
        for e in &evs {
            serde_json::to_writer(&mut w, e).unwrap();
            w.write_all(b"\n").unwrap();
            n += 1;
        }
        w.flush().unwrap();
    }
    eprintln!("programs={} events={}", progs.len(), n);
}
