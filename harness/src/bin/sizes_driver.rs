//! sizes_driver --out FILE   (the boundary set is fixed; --gen/--tier/--seed/--shard accepted and ignored except shard 0)
use std::io::Write;
fn main() {
    let args: Vec<String> = std::env::args().collect();
    let mut out = None;
    let mut shard = (0usize, 1usize);
    let mut i = 1;
    while i < args.len() {
        match args[i].as_str() {
            "--out" => { out = Some(args[i + 1].clone()); i += 1 }
            "--shard" => { let (a, b) = args[i + 1].split_once('/').unwrap(); shard = (a.parse().unwrap(), b.parse().unwrap()); i += 1 }
            "--gen" | "--tier" | "--seed" | "--dump-progs" => { i += 1 }
            x => panic!("unknown arg {x}"),
        }
        i += 1;
    }
    vh::coll::init();
    let mut w = std::io::BufWriter::new(std::fs::File::create(out.expect("--out")).unwrap());
    let mut n = 0;
    if shard.0 == 0 {
        for e in vh::sizes::run_all(0) {
            serde_json::to_writer(&mut w, &e).unwrap();
            w.write_all(b"\n").unwrap();
            n += 1;
        }
    }
    w.flush().unwrap();
    eprintln!("programs=1 events={}", n);
}
