//! coll_driver --gen NAME [--tier T] [--seed N] [--shard i/n] --out FILE [--dump-progs FILE] | --prog FILE.json
use std::io::Write;
use vh::coll::{self, CProgram};

fn main() {
    let args: Vec<String> = std::env::args().collect();
    let (mut gen, mut progf, mut tier, mut seed, mut shard, mut out, mut dump) = (None, None, "quick".to_string(), 0u64, (0usize, 1usize), None, None);
    let mut i = 1;
    while i < args.len() {
        match args[i].as_str() {
            "--gen" => { gen = Some(args[i + 1].clone()); i += 1 }
            "--prog" => { progf = Some(args[i + 1].clone()); i += 1 }
            "--tier" => { tier = args[i + 1].clone(); i += 1 }
            "--seed" => { seed = args[i + 1].parse().unwrap(); i += 1 }
            "--shard" => { let (a, b) = args[i + 1].split_once('/').unwrap(); shard = (a.parse().unwrap(), b.parse().unwrap()); i += 1 }
            "--out" => { out = Some(args[i + 1].clone()); i += 1 }
            "--dump-progs" => { dump = Some(args[i + 1].clone()); i += 1 }
            x => panic!("unknown arg {x}"),
        }
        i += 1;
    }
    let progs: Vec<CProgram> = if let Some(g) = gen { vh::cgen::by_name(&g, &tier, seed) } else {
        serde_json::from_str(&std::fs::read_to_string(progf.expect("--gen or --prog")).unwrap()).unwrap()
    };
    coll::init();
    let out = out.expect("--out");
    let mut w = std::io::BufWriter::new(std::fs::File::create(&out).unwrap());
    // arena-level view of the same runs: every arena operation the collections perform (API hooks)
    let mut wa = std::io::BufWriter::new(std::fs::File::create(format!("{}.arena", out)).unwrap());
    vh::apitrace::install_mem("coll");
    let mut dumpw = dump.map(|d| std::io::BufWriter::new(std::fs::File::create(d).unwrap()));
    let mut n = 0usize;
    for (pi, p) in progs.iter().enumerate() {
        if pi % shard.1 != shard.0 { continue; }
        if let Some(d) = dumpw.as_mut() { writeln!(d, "{}", serde_json::json!({"p": pi, "prog": p})).unwrap(); }
        for e in coll::run_both(pi, p) {
            serde_json::to_writer(&mut w, &e).unwrap();
            w.write_all(b"\n").unwrap();
            n += 1;
        }
        w.flush().unwrap();
        for mut e in vh::apitrace::take() {
            e.ar = e.p;
            e.p = pi;
            serde_json::to_writer(&mut wa, &e).unwrap();
            wa.write_all(b"\n").unwrap();
        }
        wa.flush().unwrap();
    }
    eprintln!("programs={} events={}", progs.len(), n);
}
