//! multi_driver --gen multi [--tier T] [--seed N] [--shard i/n] --out FILE [--dump-progs FILE] | --prog FILE.json
//! FILE gets the per-arena events (each arena's events contiguous, like a solo program);
//! FILE.sync gets the synchronisation log (thread, footer stores, spawn/join edges).
use std::io::Write;
use vh::arena::{self, MultiProgram};

fn main() {
    let args: Vec<String> = std::env::args().collect();
    let (mut gen, mut progf, mut tier, mut seed, mut shard, mut out, mut dump) = (None, None, "quick".to_string(), 0u64, (0usize, 1usize), None, None);
    let mut i = 1;
    while i < args.len() {
        match args[i].as_str() {
            "--gen" => { gen = Some(args[i + 1].clone()); i += 1 }
            "--prog" => { progf = Some(args[i + 1].clone()); i += 1 }
            "--tier" => { tier = args[i + 1].clone(); i += 1 }
            "--seed" => { seed = args[i + 1].parse().unwrap(); i += 1 }
            "--shard" => { let (a, b) = args[i + 1].split_once('/').unwrap(); shard = (a.parse().unwrap(), b.parse().unwrap()); i += 1 }
            "--out" => { out = Some(args[i + 1].clone()); i += 1 }
            "--dump-progs" => { dump = Some(args[i + 1].clone()); i += 1 }
            x => panic!("unknown arg {x}"),
        }
        i += 1;
    }
    let progs: Vec<MultiProgram> = if gen.is_some() { vh::gen::multi(&tier, seed) } else {
        serde_json::from_str(&std::fs::read_to_string(progf.expect("--gen or --prog")).unwrap()).unwrap()
    };
    arena::init();
    let out = out.expect("--out");
    let mut w = std::io::BufWriter::new(std::fs::File::create(&out).unwrap());
    let mut ws = std::io::BufWriter::new(std::fs::File::create(format!("{}.sync", out)).unwrap());
    let mut wi = std::io::BufWriter::new(std::fs::File::create(format!("{}.iso", out)).unwrap());
    let mut dumpw = dump.map(|d| std::io::BufWriter::new(std::fs::File::create(d).unwrap()));
    let mut n = 0usize;
    for (pi, p) in progs.iter().enumerate() {
        if pi % shard.1 != shard.0 { continue; }
        if let Some(d) = dumpw.as_mut() { writeln!(d, "{}", serde_json::json!({"p": pi, "prog": p})).unwrap(); }
        let (evs, sync) = arena::run_multi(pi, p);
        for e in &evs { serde_json::to_writer(&mut w, e).unwrap(); w.write_all(b"\n").unwrap(); n += 1; }
        for e in &sync { serde_json::to_writer(&mut ws, e).unwrap(); ws.write_all(b"\n").unwrap(); }
        // isolation log: every event of every arena paired with the same event of its solo run
        let solo = arena::run_solo(pi, p);
        for (a, sevs) in solo.iter().enumerate() {
            let mine: Vec<&vh::arena::Event> = evs.iter().filter(|e| e.ar == a).collect();
            let n = mine.len().max(sevs.len());
            // a request aligned above the chunk alignment makes the arena's behaviour depend on the absolute address
            // the global allocator happened to return (environment, not another arena): from there on the pair is
            // logged but not compared
            let mut dep = 0u8;
            for k in 0..n {
                if sevs.get(k).map(|e| e.align > 16 || e.oalign > 16).unwrap_or(false) { dep = 1; }
                let x = mine.get(k).map(|e| arena::iso_of(e, false)).unwrap_or_else(|| arena::IsoEvent { p: pi, ar: a, i: k, op: "<missing>".into(), ..Default::default() });
                let y = sevs.get(k).map(|e| arena::iso_of(e, true)).unwrap_or_else(|| arena::IsoEvent { p: pi, ar: a, i: k, solo: 1, op: "<missing>".into(), ..Default::default() });
                let (mut x, mut y) = (x, y);
                x.addrdep = dep;
                y.addrdep = dep;
                serde_json::to_writer(&mut wi, &x).unwrap(); wi.write_all(b"\n").unwrap();
                serde_json::to_writer(&mut wi, &y).unwrap(); wi.write_all(b"\n").unwrap();
            }
        }
        wi.flush().unwrap();
        w.flush().unwrap();
        ws.flush().unwrap();
    }
    eprintln!("programs={} events={}", progs.len(), n);
}
