//! Recording global allocator.
//!
//! While an arena operation is in progress on the current thread (`begin()` ..
//! `end()`), every request reaching the `#[global_allocator]` is
//!   * served from a private *region* (so that addresses are small, stable
//!     offsets that TLC's 32-bit integers can hold, so that memory is never
//!     really given back -- a double free or a use-after-free inside the code
//!     under test becomes *data*, not a crashed harness), with a placement
//!     policy that realises every chunk-base residue the allocator contract
//!     permits (e.g. only minimally aligned blocks);
//!   * recorded (kind, size, align, virtual address, granted/refused);
//!   * subject to fault injection (refuse the k-th request, ...).
//! Everything else (harness bookkeeping, panic machinery, callbacks running
//! under `pause()`) goes straight to the system allocator, unrecorded.

use std::alloc::{GlobalAlloc, Layout, System};
use std::cell::{Cell, RefCell};
use std::sync::atomic::{AtomicUsize, Ordering};
use std::sync::Mutex;

pub const REGION_SIZE: usize = 3 << 29; // 1.5 GiB of address space, lazily committed
pub const MAIN_SLICE: usize = 1 << 30;
pub const THREAD_SLICE: usize = 32 << 20;
pub const MAX_THREADS: usize = 15;
pub const VBASE: usize = 1 << 16; // virtual address of region offset 0
pub const SENTINEL_VBASE: usize = 8192;
pub const GAP: usize = 256;

#[derive(Clone, Copy, Debug, PartialEq, Eq)]
pub enum Kind {
    Alloc,
    Free,
    Realloc,
}

#[derive(Clone, Copy, Debug)]
pub struct GaEvent {
    pub kind: Kind,
    pub size: usize,
    pub align: usize,
    /// virtual address (0 if refused; -1-equivalent usize::MAX if foreign)
    pub vaddr: usize,
    pub ok: bool,
}

#[derive(Clone, Copy, Debug, PartialEq, Eq)]
pub enum Fault {
    None,
    /// refuse exactly the k-th request (0-based) counted from when the policy was set
    Kth(usize),
    /// refuse every request from the k-th on
    FromKth(usize),
    /// refuse every request whose size is >= s
    AtLeast(usize),
    /// refuse everything
    All,
}

#[derive(Clone, Copy, Debug, PartialEq, Eq)]
pub enum Placement {
    /// address is a multiple of `align` but not of `2*align` (the least the contract allows)
    Minimal,
    /// address is a multiple of max(align, 4096)
    Page,
    /// address = k*4096 + r for the given residue r (rounded up to a multiple of align)
    Residue(usize),
}

struct Slice {
    base_off: usize,
    size: usize,
    next: usize,
}

struct Global {
    region: usize, // real address of region offset 0 (aligned to 1 MiB)
    slices: Vec<Slice>,
}

static REGION_BASE: AtomicUsize = AtomicUsize::new(0);
static GLOBAL: Mutex<Option<Global>> = Mutex::new(None);

thread_local! {
    static ACTIVE: Cell<bool> = const { Cell::new(false) };
    static PAUSED: Cell<u32> = const { Cell::new(0) };
    static IN_HOOK: Cell<bool> = const { Cell::new(false) };
    pub static PANICKING: Cell<bool> = const { Cell::new(false) };
    static SLICE: Cell<usize> = const { Cell::new(usize::MAX) };
    static FAULT: Cell<Fault> = const { Cell::new(Fault::None) };
    static FAULT_COUNT: Cell<usize> = const { Cell::new(0) };
    static REFUSED_RUN: Cell<usize> = const { Cell::new(0) };
    static PLACEMENT: Cell<Placement> = const { Cell::new(Placement::Minimal) };
    static EVENTS: RefCell<Vec<GaEvent>> = const { RefCell::new(Vec::new()) };
    static TOTAL_REQUESTS: Cell<usize> = const { Cell::new(0) };
    static HUNG: Cell<bool> = const { Cell::new(false) };
    static LAST_PANIC: RefCell<String> = const { RefCell::new(String::new()) };
}

/// More than this many consecutive refused requests inside one call: the call
/// is declared hung (the legitimate retry loop halves at most ~64 times).
pub const HANG_LIMIT: usize = 10_000;

pub struct Rec;

fn ensure_region() -> usize {
    let r = REGION_BASE.load(Ordering::Acquire);
    if r != 0 {
        return r;
    }
    let mut g = GLOBAL.lock().unwrap();
    if g.is_none() {
        let raw = unsafe { System.alloc(Layout::from_size_align(REGION_SIZE + (1 << 20), 4096).unwrap()) };
        assert!(!raw.is_null(), "cannot reserve recorder region");
        let base = (raw as usize + (1 << 20) - 1) & !((1 << 20) - 1);
        *g = Some(Global { region: base, slices: Vec::new() });
        REGION_BASE.store(base, Ordering::Release);
    }
    g.as_ref().unwrap().region
}

fn slice_geom(idx: usize) -> (usize, usize) {
    if idx == 0 {
        (0, MAIN_SLICE)
    } else {
        assert!(idx <= MAX_THREADS, "too many recorder threads");
        (MAIN_SLICE + (idx - 1) * THREAD_SLICE, THREAD_SLICE)
    }
}

fn my_slice(g: &mut Global) -> usize {
    let mut s = SLICE.with(|s| s.get());
    if s == usize::MAX {
        // threads that never chose a logical slice share the last one
        s = MAX_THREADS;
        SLICE.with(|c| c.set(s));
    }
    while g.slices.len() <= s {
        let i = g.slices.len();
        let (base_off, size) = slice_geom(i);
        g.slices.push(Slice { base_off, size, next: 0 });
    }
    s
}

/// Choose the logical slice (0 = main, 1.. = worker threads) this thread places into.
pub fn set_slice(k: usize) {
    SLICE.with(|s| s.set(k));
}

pub fn in_region(p: usize) -> bool {
    let r = REGION_BASE.load(Ordering::Acquire);
    r != 0 && p >= r && p < r + REGION_SIZE
}

/// Real address -> virtual address (region pointers only).
pub fn vaddr(p: usize) -> Option<usize> {
    if in_region(p) {
        Some(p - REGION_BASE.load(Ordering::Acquire) + VBASE)
    } else {
        None
    }
}

pub fn real(v: usize) -> usize {
    v - VBASE + REGION_BASE.load(Ordering::Acquire)
}

fn refuse_now(size: usize) -> bool {
    let f = FAULT.with(|f| f.get());
    let n = FAULT_COUNT.with(|c| {
        let n = c.get();
        c.set(n + 1);
        n
    });
    match f {
        Fault::None => false,
        Fault::Kth(k) => n == k,
        Fault::FromKth(k) => n >= k,
        Fault::AtLeast(s) => size >= s,
        Fault::All => true,
    }
}

unsafe fn region_alloc(layout: Layout) -> *mut u8 {
    let region = ensure_region();
    let mut gl = GLOBAL.lock().unwrap();
    let g = gl.as_mut().unwrap();
    let si = my_slice(g);
    let sl = &mut g.slices[si];
    let align = layout.align();
    let start = region + sl.base_off + sl.next + GAP;
    let mut addr = match PLACEMENT.with(|p| p.get()) {
        Placement::Minimal => {
            let a = (start + align - 1) & !(align - 1);
            if a % (2 * align) == 0 {
                a + align
            } else {
                a
            }
        }
        Placement::Page => {
            let al = align.max(4096);
            (start + al - 1) & !(al - 1)
        }
        Placement::Residue(r) => {
            let r = ((r % 4096) + align - 1) & !(align - 1);
            if align >= 4096 {
                (start + align - 1) & !(align - 1)
            } else {
                let page = (start + 4095) & !4095;
                page + (r % 4096)
            }
        }
    };
    if addr % align != 0 {
        addr = (addr + align - 1) & !(align - 1);
    }
    let end = addr + layout.size();
    let off_end = end - region - sl.base_off;
    if off_end + GAP > sl.size {
        return std::ptr::null_mut(); // slice exhausted: behaves like a refusal
    }
    sl.next = off_end;
    addr as *mut u8
}

unsafe impl GlobalAlloc for Rec {
    unsafe fn alloc(&self, layout: Layout) -> *mut u8 {
        let recording = ACTIVE.try_with(|a| a.get()).unwrap_or(false)
            && PAUSED.try_with(|p| p.get() == 0).unwrap_or(false)
            && !IN_HOOK.try_with(|h| h.get()).unwrap_or(true)
            && !PANICKING.try_with(|h| h.get()).unwrap_or(true)
            && !std::thread::panicking();
        if !recording {
            return System.alloc(layout);
        }
        IN_HOOK.with(|h| h.set(true));
        TOTAL_REQUESTS.with(|t| t.set(t.get() + 1));
        let refused = refuse_now(layout.size());
        let p = if refused { std::ptr::null_mut() } else { region_alloc(layout) };
        let ok = !p.is_null();
        if ok {
            REFUSED_RUN.with(|r| r.set(0));
        } else {
            let n = REFUSED_RUN.with(|r| {
                let n = r.get() + 1;
                r.set(n);
                n
            });
            if n > HANG_LIMIT {
                // non-termination becomes data: flag it and stop refusing so
                // that the call under test comes back
                HUNG.with(|h| h.set(true));
                FAULT.with(|c| c.set(Fault::None));
            }
        }
        EVENTS.with(|e| {
            let mut e = e.borrow_mut();
            // while refusals pile up only keep the first few hundred
            if ok || e.len() < 400 {
                e.push(GaEvent {
                    kind: Kind::Alloc,
                    size: layout.size(),
                    align: layout.align(),
                    vaddr: if ok { vaddr(p as usize).unwrap() } else { 0 },
                    ok,
                });
            }
        });
        IN_HOOK.with(|h| h.set(false));
        p
    }

    unsafe fn dealloc(&self, ptr: *mut u8, layout: Layout) {
        let p = ptr as usize;
        if in_region(p) {
            // never really released; record if we are inside an operation
            let recording = ACTIVE.try_with(|a| a.get()).unwrap_or(false)
                && !IN_HOOK.try_with(|h| h.get()).unwrap_or(true);
            if recording {
                IN_HOOK.with(|h| h.set(true));
                EVENTS.with(|e| {
                    e.borrow_mut().push(GaEvent {
                        kind: Kind::Free,
                        size: layout.size(),
                        align: layout.align(),
                        vaddr: vaddr(p).unwrap(),
                        ok: true,
                    })
                });
                IN_HOOK.with(|h| h.set(false));
            } else {
                STRAY_FREES.fetch_add(1, Ordering::SeqCst);
            }
            return;
        }
        let recording = ACTIVE.try_with(|a| a.get()).unwrap_or(false)
            && PAUSED.try_with(|p| p.get() == 0).unwrap_or(false)
            && !IN_HOOK.try_with(|h| h.get()).unwrap_or(true)
            && !PANICKING.try_with(|h| h.get()).unwrap_or(true)
            && !std::thread::panicking();
        if recording {
            // the code under test frees something it never obtained from us
            // (e.g. the static sentinel): record, do not perform.
            IN_HOOK.with(|h| h.set(true));
            EVENTS.with(|e| {
                e.borrow_mut().push(GaEvent {
                    kind: Kind::Free,
                    size: layout.size(),
                    align: layout.align(),
                    vaddr: usize::MAX,
                    ok: false,
                })
            });
            IN_HOOK.with(|h| h.set(false));
            return;
        }
        System.dealloc(ptr, layout)
    }

    unsafe fn realloc(&self, ptr: *mut u8, layout: Layout, new_size: usize) -> *mut u8 {
        if in_region(ptr as usize) {
            // bumpalo never calls realloc on the global allocator; keep it sound anyway
            let new = self.alloc(Layout::from_size_align_unchecked(new_size, layout.align()));
            if !new.is_null() {
                std::ptr::copy_nonoverlapping(ptr, new, layout.size().min(new_size));
                self.dealloc(ptr, layout);
            }
            return new;
        }
        let recording = ACTIVE.try_with(|a| a.get()).unwrap_or(false)
            && PAUSED.try_with(|p| p.get() == 0).unwrap_or(false)
            && !IN_HOOK.try_with(|h| h.get()).unwrap_or(true)
            && !PANICKING.try_with(|h| h.get()).unwrap_or(true)
            && !std::thread::panicking();
        if recording {
            let new = self.alloc(Layout::from_size_align_unchecked(new_size, layout.align()));
            if !new.is_null() {
                std::ptr::copy_nonoverlapping(ptr, new, layout.size().min(new_size));
                self.dealloc(ptr, layout);
            }
            return new;
        }
        System.realloc(ptr, layout, new_size)
    }
}

pub static STRAY_FREES: AtomicUsize = AtomicUsize::new(0);

/// Start recording on this thread. Events so far are discarded.
pub fn begin() {
    EVENTS.with(|e| e.borrow_mut().clear());
    REFUSED_RUN.with(|r| r.set(0));
    ACTIVE.with(|a| a.set(true));
}

/// Stop recording; returns the events of the operation.
pub fn end() -> Vec<GaEvent> {
    ACTIVE.with(|a| a.set(false));
    PANICKING.with(|p| p.set(false));
    PAUSED.with(|p| p.set(0));
    EVENTS.with(|e| std::mem::take(&mut *e.borrow_mut()))
}

pub struct PauseGuard;

/// Harness callbacks (closures, Clone, Drop, iterators) run under this guard so
/// that their own allocations are never attributed to the arena.
pub fn pause() -> PauseGuard {
    PAUSED.with(|p| p.set(p.get() + 1));
    PauseGuard
}

impl Drop for PauseGuard {
    fn drop(&mut self) {
        PAUSED.with(|p| p.set(p.get().saturating_sub(1)));
    }
}

pub fn set_fault(f: Fault) {
    FAULT.with(|c| c.set(f));
    FAULT_COUNT.with(|c| c.set(0));
}

/// Save / restore the fault policy with its request counter (multi-arena drivers keep one per arena).
pub fn get_fault_state() -> (Fault, usize) {
    (FAULT.with(|c| c.get()), FAULT_COUNT.with(|c| c.get()))
}
pub fn set_fault_state(st: (Fault, usize)) {
    FAULT.with(|c| c.set(st.0));
    FAULT_COUNT.with(|c| c.set(st.1));
}

pub fn set_placement(p: Placement) {
    PLACEMENT.with(|c| c.set(p));
}

/// True if the last operation had to be broken out of a refusal loop.
pub fn take_hung() -> bool {
    HUNG.with(|h| h.replace(false))
}

pub fn total_requests() -> usize {
    TOTAL_REQUESTS.with(|t| t.get())
}

/// Forget everything placed in this thread's slice (start of a new program).
pub fn reset_slice() {
    ensure_region();
    let mut gl = GLOBAL.lock().unwrap();
    let g = gl.as_mut().unwrap();
    let _ = my_slice(g);
    for sl in g.slices.iter_mut() {
        sl.next = 0;
    }
    TOTAL_REQUESTS.with(|t| t.set(0));
    set_fault(Fault::None);
}

/// Install the panic hook: silences the default message and marks the thread
/// as panicking so that the panic machinery's own allocations are not recorded.
pub fn install_panic_hook() {
    std::panic::set_hook(Box::new(|info| {
        let _ = PANICKING.try_with(|p| p.set(true));
        let msg = if let Some(s) = info.payload().downcast_ref::<&str>() {
            s.to_string()
        } else if let Some(s) = info.payload().downcast_ref::<String>() {
            s.clone()
        } else {
            String::new()
        };
        let loc = info.location().map(|l| format!("{}:{}", l.file(), l.line())).unwrap_or_default();
        let _ = LAST_PANIC.try_with(|p| *p.borrow_mut() = format!("{} @ {}", msg, loc));
    }));
}

pub fn take_panic_msg() -> String {
    LAST_PANIC.with(|p| std::mem::take(&mut *p.borrow_mut()))
}

pub fn clear_panicking() {
    PANICKING.with(|p| p.set(false));
}
