//! Extra collections drivers: zero-sized elements (counted, not identified) and Copy elements
//! (values only), each on bumpalo's and std's Vec with the same script.
use crate::coll::{base, tick, CEvent, Ledger, Rg, Zt, LG};
use crate::rec;
use bumpalo::collections::Vec as BVec;
use bumpalo::Bump;
use serde::{Deserialize, Serialize};
use std::panic::{catch_unwind, AssertUnwindSafe};

#[derive(Serialize, Deserialize, Clone, Debug, PartialEq)]
#[serde(tag = "op")]
pub enum XOp {
    // ---- zero-sized elements
    ZNew { cap: i64 },
    ZPush,
    ZPop,
    ZInsert { i: i64 },
    ZRemove { i: i64 },
    ZSwapRemove { i: i64 },
    ZTruncate { n: i64 },
    ZResize { n: i64 },
    ZExtend { n: i64 },
    ZClear,
    ZDrain { r: Rg, take: usize },
    ZSplitOff { at: i64 },
    ZRetain { keep: bool },
    ZDedup,
    ZIntoIter { front: usize, back: usize },
    ZClone,
    ZReserve { n: i64 },
    ZDrop,
    /// Box<[Zt]> of `len` zero-sized elements -> TryFrom into Box<[Zt; 3]>: must succeed iff len == 3,
    /// and must hand the slice back (nothing dropped, nothing invented) otherwise
    ZBoxTryArray { len: usize },
    // ---- Copy elements (i64 / u8)
    CNew,
    CExtendFromSliceCopy { vals: Vec<i64> },
    CExtendFromSlicesCopy { a: Vec<i64>, b: Vec<i64>, c: Vec<i64> },
    CVecMacroList { vals: Vec<i64> },
    CVecMacroRepeat { val: i64, n: usize },
    CCollectIn { vals: Vec<i64> },
    CIoWrite { bytes: Vec<u8> },
    CPush { val: i64 },
}

#[derive(Serialize, Deserialize, Clone, Debug)]
pub struct XProgram {
    pub ops: Vec<XOp>,
    #[serde(default)]
    pub tag: String,
}

fn ub(x: i64) -> usize {
    if x < 0 { usize::MAX } else { x as usize }
}

macro_rules! xinterp {
    ($modname:ident, $im:expr, $VZ:ty, $VC:ty, $VB:ty) => {
        pub mod $modname {
            use super::*;
            pub struct State<'b> {
                pub bump: &'b Bump,
                pub z: Option<$VZ>,
                pub c: Option<$VC>,
                pub held: Vec<Zt>,
                pub out: Vec<CEvent>,
                pub p: usize,
                pub tag: String,
            }
            impl<'b> State<'b> {
                fn zcall<F: FnOnce(&mut Self, &mut CEvent)>(&mut self, mut ev: CEvent, f: F) {
                    ev.p = self.p;
                    ev.i = self.out.len();
                    ev.im = $im.into();
                    ev.ty = "Z".into();
                    ev.tag = self.tag.clone();
                    ev.zlen0 = self.z.as_ref().map(|z| z.len().min(i32::MAX as usize) as i64).unwrap_or(-1);
                    let (c0, d0) = LG.with(|l| { let l = l.borrow(); (l.zcreated, l.zdropped) });
                    let h0 = self.held.len() as i64;
                    rec::begin();
                    let r = catch_unwind(AssertUnwindSafe(|| f(self, &mut ev)));
                    let _ = rec::end();
                    rec::clear_panicking();
                    let msg = rec::take_panic_msg();
                    if r.is_err() { ev.res = "panic".into(); ev.msg = msg.chars().take(100).collect(); }
                    let (c1, d1) = LG.with(|l| { let l = l.borrow(); (l.zcreated, l.zdropped) });
                    ev.zc = c1 - c0;
                    ev.zd = d1 - d0;
                    ev.zr = self.held.len() as i64 - h0;
                    if let Some(z) = self.z.as_ref() {
                        ev.alive = 1;
                        ev.len = z.len().min(i32::MAX as usize) as i64;
                        ev.cap = z.capacity().min(i32::MAX as usize) as i64;
                    }
                    self.out.push(ev);
                }
                fn ccall<F: FnOnce(&mut Self, &mut CEvent)>(&mut self, mut ev: CEvent, f: F) {
                    ev.p = self.p;
                    ev.i = self.out.len();
                    ev.im = $im.into();
                    ev.ty = "C".into();
                    ev.tag = self.tag.clone();
                    rec::begin();
                    let r = catch_unwind(AssertUnwindSafe(|| f(self, &mut ev)));
                    let _ = rec::end();
                    rec::clear_panicking();
                    let msg = rec::take_panic_msg();
                    if r.is_err() { ev.res = "panic".into(); ev.msg = msg.chars().take(100).collect(); }
                    if let Some(c) = self.c.as_ref() {
                        ev.alive = 1;
                        ev.after = c.iter().map(|&x| [-1, x]).collect();
                        ev.len = c.len() as i64;
                        ev.cap = c.capacity().min(i32::MAX as usize) as i64;
                    }
                    self.out.push(ev);
                }
                pub fn step(&mut self, op: &XOp) {
                    match op.clone() {
                        XOp::ZNew { cap } => { let mut ev = base("znew"); ev.a = cap; self.zcall(ev, |s, _| { s.z = Some(znew!($modname, s.bump, cap)); }); }
                        XOp::ZPush => { self.zcall(base("zpush"), |s, _| { if let Some(z) = s.z.as_mut() { z.push(Zt::new()); } }); }
                        XOp::ZPop => { self.zcall(base("zpop"), |s, _| { if let Some(z) = s.z.as_mut() { if let Some(t) = z.pop() { s.held.push(t); } } }); }
                        XOp::ZInsert { i } => { let mut ev = base("zinsert"); ev.a = i; self.zcall(ev, |s, _| { if let Some(z) = s.z.as_mut() { z.insert(ub(i), Zt::new()); } }); }
                        XOp::ZRemove { i } => { let mut ev = base("zremove"); ev.a = i; self.zcall(ev, |s, _| { if let Some(z) = s.z.as_mut() { let t = z.remove(ub(i)); s.held.push(t); } }); }
                        XOp::ZSwapRemove { i } => { let mut ev = base("zswap_remove"); ev.a = i; self.zcall(ev, |s, _| { if let Some(z) = s.z.as_mut() { let t = z.swap_remove(ub(i)); s.held.push(t); } }); }
                        XOp::ZTruncate { n } => { let mut ev = base("ztruncate"); ev.a = n; self.zcall(ev, |s, _| { if let Some(z) = s.z.as_mut() { z.truncate(ub(n)); } }); }
                        XOp::ZResize { n } => { let mut ev = base("zresize"); ev.a = n; self.zcall(ev, |s, _| { if let Some(z) = s.z.as_mut() { z.resize(ub(n), Zt::new()); } }); }
                        XOp::ZExtend { n } => { let mut ev = base("zextend"); ev.a = n; self.zcall(ev, |s, _| { if let Some(z) = s.z.as_mut() { z.extend((0..n).map(|_| { tick(); Zt::new() })); } }); }
                        XOp::ZClear => { self.zcall(base("zclear"), |s, _| { if let Some(z) = s.z.as_mut() { z.clear(); } }); }
                        XOp::ZDrain { r, take } => {
                            let mut ev = base("zdrain"); ev.rg = [r.sk as i64, r.s, r.ek as i64, r.e]; ev.a = take as i64;
                            self.zcall(ev, |s, _| { let mut got = Vec::new(); if let Some(z) = s.z.as_mut() { let mut d = z.drain(r.bounds()); for _ in 0..take { if let Some(t) = d.next() { got.push(t); } } } s.held.extend(got); });
                        }
                        XOp::ZSplitOff { at } => { let mut ev = base("zsplit_off"); ev.a = at; self.zcall(ev, |s, ev| { if let Some(z) = s.z.as_mut() { let o = z.split_off(ub(at)); ev.retn = o.len() as i64; drop(o); } }); }
                        XOp::ZRetain { keep } => { let mut ev = base("zretain"); ev.flag = keep as i64; self.zcall(ev, |s, _| { if let Some(z) = s.z.as_mut() { z.retain(|_| { tick(); keep }); } }); }
                        XOp::ZDedup => { self.zcall(base("zdedup"), |s, _| { if let Some(z) = s.z.as_mut() { z.dedup_by(|_, _| true); } }); }
                        XOp::ZIntoIter { front, back } => {
                            let mut ev = base("zinto_iter"); ev.a = front as i64; ev.b = back as i64;
                            self.zcall(ev, |s, ev| { let mut got = Vec::new(); if let Some(z) = s.z.take() { let mut it = z.into_iter(); for _ in 0..front { if let Some(t) = it.next() { got.push(t); } } for _ in 0..back { if let Some(t) = it.next_back() { got.push(t); } } ev.retn = it.len() as i64; } s.held.extend(got); });
                        }
                        XOp::ZClone => { self.zcall(base("zclone"), |s, ev| { if let Some(z) = s.z.as_ref() { let c = z.clone(); ev.retn = c.len() as i64; drop(c); } }); }
                        XOp::ZReserve { n } => { let mut ev = base("zreserve"); ev.a = n; self.zcall(ev, |s, _| { if let Some(z) = s.z.as_mut() { z.reserve(ub(n)); } }); }
                        XOp::ZDrop => { self.zcall(base("zdrop"), |s, _| { let z = s.z.take(); drop(z); let h = std::mem::take(&mut s.held); drop(h); }); }
                        XOp::ZBoxTryArray { len } => {
                            let mut ev = base("zbox_try_array"); ev.a = len as i64;
                            self.zcall(ev, |s, ev| {
                                let items: Vec<Zt> = { let _g = rec::pause(); (0..len).map(|_| Zt::new()).collect() };
                                ev.retn = zbox_try!($modname, s.bump, items);
                            });
                        }
                        XOp::CNew => { self.ccall(base("cnew"), |s, _| { s.c = Some(cnew!($modname, s.bump)); }); }
                        XOp::CPush { val } => { let mut ev = base("cpush"); ev.vals = vec![val]; self.ccall(ev, |s, _| { if let Some(c) = s.c.as_mut() { c.push(val); } }); }
                        XOp::CExtendFromSliceCopy { vals } => { let mut ev = base("extend_from_slice_copy"); ev.vals = vals.clone(); self.ccall(ev, |s, _| { if let Some(c) = s.c.as_mut() { cext!($modname, c, &vals[..]); } }); }
                        XOp::CExtendFromSlicesCopy { a, b, c } => {
                            let mut ev = base("extend_from_slices_copy"); ev.vals = [a.clone(), b.clone(), c.clone()].concat();
                            self.ccall(ev, |s, _| { if let Some(v) = s.c.as_mut() { cexts!($modname, v, &a[..], &b[..], &c[..]); } });
                        }
                        XOp::CVecMacroList { vals } => {
                            let mut ev = base("vec_macro"); ev.vals = vals.clone();
                            self.ccall(ev, |s, _| { let x = vals.get(0).cloned().unwrap_or(0); let y = vals.get(1).cloned().unwrap_or(0); let z = vals.get(2).cloned().unwrap_or(0);
                                s.c = Some(match vals.len() { 0 => cmacro!($modname, s.bump,), 1 => cmacro!($modname, s.bump, x), 2 => cmacro!($modname, s.bump, x, y), _ => cmacro!($modname, s.bump, x, y, z) }); });
                            if let Some(e) = self.out.last_mut() { e.vals.truncate(3); }
                        }
                        XOp::CVecMacroRepeat { val, n } => { let mut ev = base("vec_macro"); ev.vals = vec![val; n]; self.ccall(ev, |s, _| { s.c = Some(cmacror!($modname, s.bump, val, n)); }); }
                        XOp::CCollectIn { vals } => { let mut ev = base("collect_in"); ev.vals = vals.clone(); self.ccall(ev, |s, _| { s.c = Some(ccollect!($modname, s.bump, vals.iter().cloned())); }); }
                        XOp::CIoWrite { bytes } => {
                            let mut ev = base("io_write"); ev.vals = bytes.iter().map(|&b| b as i64).collect();
                            self.ccall(ev, |s, ev| {
                                use std::io::Write;
                                let mut w: $VB = cnewb!($modname, s.bump);
                                w.push(7u8);
                                let n = w.write(&bytes[..]).unwrap();
                                w.write_all(&[1, 2]).unwrap();
                                w.flush().unwrap();
                                ev.retn = n as i64;
                                ev.ret = w.iter().map(|&b| [-1, b as i64]).collect();
                            });
                        }
                    }
                }
            }
            pub fn run(p: usize, prog: &XProgram) -> Vec<CEvent> {
                rec::reset_slice();
                LG.with(|l| *l.borrow_mut() = Ledger { panic_at: -1, ..Default::default() });
                let bump = Bump::new();
                let mut st = State { bump: &bump, z: None, c: None, held: Vec::new(), out: Vec::new(), p, tag: prog.tag.clone() };
                for op in &prog.ops { st.step(op); }
                st.step(&XOp::ZDrop);
                let o = std::mem::take(&mut st.out);
                let out = o.clone();
                drop(o);
                drop(st);
                out
            }
        }
    };
}
macro_rules! zbox_try {
    (bx, $b:expr, $items:expr) => {{
        let sl: bumpalo::boxed::Box<[Zt]> = bumpalo::boxed::Box::from_iter_in($items.into_iter(), $b);
        let r: Result<bumpalo::boxed::Box<[Zt; 3]>, bumpalo::boxed::Box<[Zt]>> = std::convert::TryFrom::try_from(sl);
        match r { Ok(a) => { drop(a); 1 } Err(orig) => { let n = orig.len() as i64; drop(orig); -n } }
    }};
    (sx, $b:expr, $items:expr) => {{
        let sl: std::boxed::Box<[Zt]> = $items.into_iter().collect();
        let r: Result<std::boxed::Box<[Zt; 3]>, std::boxed::Box<[Zt]>> = std::convert::TryFrom::try_from(sl);
        match r { Ok(a) => { drop(a); 1 } Err(orig) => { let n = orig.len() as i64; drop(orig); -n } }
    }};
}
macro_rules! znew { (bx, $b:expr, $cap:expr) => { if $cap < 0 { BVec::new_in($b) } else { BVec::with_capacity_in(ub($cap), $b) } }; (sx, $b:expr, $cap:expr) => { if $cap < 0 { Vec::new() } else { Vec::with_capacity(ub($cap)) } }; }
macro_rules! cnew { (bx, $b:expr) => { BVec::new_in($b) }; (sx, $b:expr) => { Vec::new() }; }
macro_rules! cnewb { (bx, $b:expr) => { BVec::new_in($b) }; (sx, $b:expr) => { Vec::new() }; }
macro_rules! cext { (bx, $c:expr, $s:expr) => { $c.extend_from_slice_copy($s) }; (sx, $c:expr, $s:expr) => { $c.extend_from_slice($s) }; }
macro_rules! cexts { (bx, $c:expr, $a:expr, $b:expr, $d:expr) => { $c.extend_from_slices_copy(&[$a, $b, $d]) }; (sx, $c:expr, $a:expr, $b:expr, $d:expr) => {{ $c.extend_from_slice($a); $c.extend_from_slice($b); $c.extend_from_slice($d); }}; }
macro_rules! cmacro { (bx, $b:expr, $($x:expr),*) => { bumpalo::vec![in $b; $($x),*] }; (sx, $b:expr, $($x:expr),*) => { vec![$($x),*] }; }
macro_rules! cmacror { (bx, $b:expr, $v:expr, $n:expr) => { bumpalo::vec![in $b; $v; $n] }; (sx, $b:expr, $v:expr, $n:expr) => { vec![$v; $n] }; }
macro_rules! ccollect { (bx, $b:expr, $it:expr) => {{ use bumpalo::collections::CollectIn; $it.collect_in::<BVec<i64>>($b) }}; (sx, $b:expr, $it:expr) => { $it.collect::<Vec<i64>>() }; }

xinterp!(bx, "bump", BVec<'b, Zt>, BVec<'b, i64>, BVec<'b, u8>);
xinterp!(sx, "std", Vec<Zt>, Vec<i64>, Vec<u8>);

pub fn run_both(p: usize, prog: &XProgram) -> Vec<CEvent> {
    let mut out = bx::run(p, prog);
    out.extend(sx::run(p, prog));
    out
}

// ------------------------------------------------------------ generators
fn rgs(len: i64) -> Vec<Rg> {
    crate::cgen::ranges(len).into_iter().step_by(3).collect()
}

pub fn by_name(name: &str, tier: &str, seed: u64) -> Vec<XProgram> {
    use rand::{rngs::StdRng, Rng, SeedableRng};
    let thorough = tier == "thorough";
    let mut out = Vec::new();
    match name {
        "zst" => {
            for len in 0..=(if thorough { 5 } else { 3 }) {
                let mut ops: Vec<XOp> = vec![XOp::ZPush, XOp::ZPop, XOp::ZClear, XOp::ZDedup, XOp::ZRetain { keep: true }, XOp::ZRetain { keep: false }, XOp::ZClone, XOp::ZDrop,
                    XOp::ZExtend { n: 3 }, XOp::ZReserve { n: 10 }, XOp::ZReserve { n: -1 }];
                let mut idx: Vec<i64> = (0..=len + 2).collect();
                idx.push(-1);
                for &i in &idx {
                    ops.push(XOp::ZInsert { i });
                    ops.push(XOp::ZRemove { i });
                    ops.push(XOp::ZSwapRemove { i });
                    ops.push(XOp::ZTruncate { n: i });
                    ops.push(XOp::ZSplitOff { at: i });
                    if i >= 0 { ops.push(XOp::ZResize { n: i }); }
                }
                for r in rgs(len) { ops.push(XOp::ZDrain { r, take: 0 }); ops.push(XOp::ZDrain { r, take: 1 }); }
                for f in 0..3 { for b in 0..3 { ops.push(XOp::ZIntoIter { front: f, back: b }); } }
                for n in [0usize, 2, 3, 4, 7] { ops.push(XOp::ZBoxTryArray { len: n }); }
                for op in ops {
                    let mut p = vec![XOp::ZNew { cap: if len % 2 == 0 { -1 } else { 4 } }];
                    for _ in 0..len { p.push(XOp::ZPush); }
                    p.push(op);
                    p.push(XOp::ZPush);
                    p.push(XOp::ZPop);
                    out.push(XProgram { ops: p, tag: "zst".into() });
                }
            }
            let mut rng = StdRng::seed_from_u64(seed ^ 0x257);
            for _ in 0..if thorough { 2000 } else { 200 } {
                let mut p = vec![XOp::ZNew { cap: -1 }];
                for _ in 0..20 {
                    let l = rng.gen_range(0..6);
                    p.push(match rng.gen_range(0..14) {
                        0 | 1 | 2 => XOp::ZPush, 3 => XOp::ZPop, 4 => XOp::ZInsert { i: rng.gen_range(0..l + 2) }, 5 => XOp::ZRemove { i: rng.gen_range(0..l + 1) },
                        6 => XOp::ZTruncate { n: rng.gen_range(0..l + 1) }, 7 => XOp::ZResize { n: rng.gen_range(0..8) }, 8 => XOp::ZExtend { n: rng.gen_range(0..4) },
                        9 => { let r = rgs(l); XOp::ZDrain { r: r[rng.gen_range(0..r.len())], take: rng.gen_range(0..3) } }
                        10 => XOp::ZSplitOff { at: rng.gen_range(0..l + 1) }, 11 => XOp::ZDedup, 12 => XOp::ZRetain { keep: rng.gen_bool(0.5) }, _ => XOp::ZClone,
                    });
                }
                out.push(XProgram { ops: p, tag: "zst-random".into() });
            }
        }
        "copyops" => {
            let lists: Vec<Vec<i64>> = vec![vec![], vec![5], vec![1, 2, 3], (0..40).collect(), (0..1000).collect()];
            for a in &lists { for b in &lists {
                out.push(XProgram { ops: vec![XOp::CNew, XOp::CPush { val: 9 }, XOp::CExtendFromSliceCopy { vals: a.clone() }, XOp::CExtendFromSlicesCopy { a: b.clone(), b: a.clone(), c: vec![7] },
                    XOp::CExtendFromSliceCopy { vals: b.clone() }, XOp::CPush { val: 1 }], tag: "copyops".into() });
                out.push(XProgram { ops: vec![XOp::CCollectIn { vals: a.clone() }, XOp::CExtendFromSlicesCopy { a: b.clone(), b: vec![], c: b.clone() }, XOp::CVecMacroList { vals: b.iter().cloned().take(3).collect() },
                    XOp::CVecMacroRepeat { val: 4, n: a.len() }, XOp::CExtendFromSliceCopy { vals: b.clone() }], tag: "copyops".into() });
            } }
            for n in [0usize, 1, 5, 300, 5000] {
                out.push(XProgram { ops: vec![XOp::CIoWrite { bytes: (0..n).map(|i| (i * 7) as u8).collect() }], tag: "copyops".into() });
            }
        }
        _ => panic!("unknown generator {name}"),
    }
    out
}
