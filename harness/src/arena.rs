//! Arena driver: executes *programs* (lists of `Op`) on the real `bumpalo::Bump`
//! and emits one event per API call with the observable projection of the
//! state after the call.

use crate::rec::{self, Fault, GaEvent, Kind, Placement};
use allocator_api2::alloc::Allocator;
use bumpalo::Bump;
use serde::{Deserialize, Serialize};
use std::alloc::Layout;
use std::cell::RefCell;
use std::panic::{catch_unwind, AssertUnwindSafe};
use std::ptr::NonNull;

// ---------------------------------------------------------------- programs

#[derive(Serialize, Deserialize, Clone, Debug, PartialEq)]
pub enum Clos {
    /// initialiser allocates nothing in the arena
    Nothing,
    /// allocates `n` bytes (align 1) in the arena and keeps them
    Keep(usize),
    /// allocates `n` bytes and deallocates them again (through the allocator API)
    Release(usize),
    /// allocates a zero-sized block
    Zst,
}

#[derive(Serialize, Deserialize, Clone, Debug, PartialEq)]
#[serde(tag = "op")]
pub enum Op {
    /// constructor: `with_min_align()` (cap = None) or `(try_)with_min_align_and_capacity`
    New { cap: Option<usize>, fallible: bool },
    /// `alloc_layout` / `try_alloc_layout`
    Layout { size: usize, align: usize, fallible: bool },
    /// `alloc` / `try_alloc` / `alloc_with` / `try_alloc_with` of a value of menu type `ty`
    Val { ty: u8, with: bool, fallible: bool },
    /// `alloc_slice_copy` / `try_alloc_slice_copy`
    SliceCopy { ty: u8, len: usize, fallible: bool },
    /// `alloc_slice_clone` / `try_alloc_slice_clone`
    SliceClone { ty: u8, len: usize, fallible: bool },
    /// `alloc_str` / `try_alloc_str`
    Str { len: usize, fallible: bool },
    /// `(try_)alloc_slice_fill_{with,copy,clone,iter,default}`; `how` = 0..4
    Fill { ty: u8, len: usize, how: u8, fallible: bool },
    /// `alloc_try_with` / `try_alloc_try_with`; value type `ty`, error type `ety`
    TryWith { ty: u8, ety: u8, ok: bool, clos: Clos, fallible: bool },
    /// `alloc_slice_try_fill_with` / `_iter`; fails at index `fail_at` (-1: never)
    TryFill { ty: u8, len: usize, fail_at: i64, iter: bool },
    /// like TryFill, but the initialiser of element `at` also allocates in the same arena (`clos`)
    TryFillClos { ty: u8, len: usize, fail_at: i64, iter: bool, at: usize, clos: Clos },
    /// `Allocator::allocate` / `allocate_zeroed`
    Allocate { size: usize, align: usize, zeroed: bool },
    /// `Allocator::deallocate` of live block number `b` (index into the live list, modulo)
    Dealloc { b: usize },
    /// `Allocator::grow` / `grow_zeroed`
    Grow { b: usize, size: usize, align: usize, zeroed: bool },
    /// `Allocator::shrink`
    Shrink { b: usize, size: usize, align: usize },
    Reset,
    Limit { lim: Option<usize> },
    /// `iter_allocated_chunks` and `iter_allocated_chunks_raw`
    Iter,
    Drop,
    /// global-allocator fault policy from now on: kind 0 none, 1 k-th, 2 from k-th, 3 size >= k, 4 all
    Fault { kind: u8, k: usize },
    /// chunk placement policy: kind 0 minimal, 1 page, 2 residue k
    Place { kind: u8, k: usize },
    /// allocate exactly the reported `chunk_capacity()` with `alloc_layout(cap, 1)` (probe)
    FillCap { parts: usize },
    /// repeat the layout of the previous allocation-type call (follow-up probe)
    Again,
    /// `count` allocations of (size, align) in one event (volume workloads: only chunk acquisitions matter)
    Bulk { size: usize, align: usize, count: usize },
    /// move the arena to another thread, run the nested ops there, move it back
    OnThread { ops: Vec<Op> },
    /// the `n`-th callback (initialiser closure / Clone / iterator step) of the NEXT call panics
    PanicAtCb { n: i64 },
    /// like Dealloc / Grow / Shrink, but the block is the `r`-th live block in address order
    /// (how behaviours generated from the TLA+ model refer to blocks)
    DeallocR { r: usize },
    GrowR { r: usize, size: usize, align: usize, zeroed: bool },
    ShrinkR { r: usize, size: usize, align: usize },
}

#[derive(Serialize, Deserialize, Clone, Debug)]
pub struct Program {
    pub ma: usize,
    pub ops: Vec<Op>,
    #[serde(default)]
    pub tag: String,
}

// ---------------------------------------------------------------- events

#[derive(Serialize, Clone, Debug, Default)]
pub struct Event {
    pub p: usize,          // program index
    pub i: usize,          // step within program
    pub ma: usize,         // MIN_ALIGN
    pub th: usize,         // thread (0 main)
    pub ar: usize,         // arena index within a multi-arena program
    pub seq: usize,        // per-thread sequence number of the call (multi-arena programs)
    pub op: String,        // operation name
    pub fall: u8,          // 1 if the fallible flavour
    pub size: i64,         // requested size (bytes) or -1
    pub align: i64,        // requested align or -1
    pub len: i64,          // slice length / capacity / limit argument, or -1
    pub blk: i64,          // id of the block operated on (dealloc/grow/shrink) or -1
    pub res: String,       // ok | err | initerr | panic | hang
    pub addr: i64,         // returned address (virtual) or 0
    pub new: Vec<[i64; 4]>,  // blocks born: id, addr, size, align
    pub dead: Vec<i64>,    // ids that stopped being live
    pub ga: Vec<[i64; 5]>, // global allocator calls: kind(1 alloc,2 free), size, align, addr, ok
    pub chunks: Vec<[i64; 3]>, // newest first: data, footer, finger
    pub it: Vec<[i64; 2]>, // iter_allocated_chunks items (addr,len) when op = iter
    pub itraw: Vec<[i64; 2]>,
    pub ab: i64,
    pub abm: i64,
    pub cap: i64,
    pub lim: i64,          // -1 none
    pub cb: Vec<i64>,      // callback invocations in order (argument or ordinal)
    pub cbn: i64,          // number of callback invocations expected on success, -1 n/a
    pub corrupt: Vec<i64>, // live blocks whose bytes differ from the shadow copy
    pub init_ok: u8,       // 1 if the new block reads back what was supplied
    pub prefix_ok: u8,     // grow/shrink: first min(old,new) bytes preserved
    pub zero_ok: u8,       // zeroed tail is zero
    pub errtok: i64,       // number of times the error token came back (1 expected), -1 n/a
    pub errdrops: i64,     // times the error token was dropped inside the call
    pub stores: Vec<[i64; 3]>, // footer stores: footer vaddr, is_sentinel, site
    pub sent: i64,         // sentinel virtual address
    pub salign: i64,       // alignment guaranteed by the sentinel's type
    pub follow: u8,        // 1 if this is a follow-up probe of the previous event
    pub pp: u8,            // 1 if the programmed initialiser panic fired during this call
    pub clos: String,      // closure kind for try_with
    pub closk: i64,        // 0 nothing, 1 keep(n), 2 release(n), 3 zero-sized
    pub closn: i64,
    pub okf: u8,           // try_with: 1 if the initialiser returns Ok
    pub off: i64,          // try_with: offset of the value inside the reserved Result slot
    pub ptr: i64,          // dealloc/grow/shrink: address of the block operated on
    pub oalign: i64,       // dealloc/grow/shrink: its alignment (its size is `len`)
    pub failat: i64,       // try_fill: index at which the initialiser fails, -1 never
    pub tag: String,
    pub msg: String,       // panic message, if any
}

// ---------------------------------------------------------------- type menu

#[derive(Clone, Copy)]
#[repr(align(32))]
pub struct A32(pub [u8; 32]);
#[derive(Clone, Copy)]
#[repr(align(64))]
pub struct A64(pub [u8; 64]);
#[derive(Clone, Copy)]
#[repr(align(4096))]
pub struct A4096(pub [u8; 4096]);
#[derive(Clone, Copy)]
#[repr(align(64))]
pub struct Z64;
#[derive(Clone, Copy)]
#[repr(align(16))]
pub struct A16x48(pub [u8; 48]);
#[derive(Clone, Copy)]
#[repr(align(128))]
pub struct A128(pub [u8; 128]);

pub const NTY: u8 = 15;

macro_rules! with_ty {
    ($ty:expr, $f:ident, ($($args:expr),*)) => {
        match $ty % NTY {
            0 => $f::<M, ()>($($args),*),
            1 => $f::<M, u8>($($args),*),
            2 => $f::<M, u16>($($args),*),
            3 => $f::<M, u32>($($args),*),
            4 => $f::<M, u64>($($args),*),
            5 => $f::<M, u128>($($args),*),
            6 => $f::<M, [u64; 32]>($($args),*),
            7 => $f::<M, [u8; 3]>($($args),*),
            8 => $f::<M, A32>($($args),*),
            9 => $f::<M, A64>($($args),*),
            10 => $f::<M, [u8; 2000]>($($args),*),
            11 => $f::<M, [u8; 5000]>($($args),*),
            12 => $f::<M, A4096>($($args),*),
            13 => $f::<M, Z64>($($args),*),
            _ => $f::<M, A16x48>($($args),*),
        }
    };
}

macro_rules! with_ty2 {
    ($ty:expr, $ety:expr, $f:ident, ($($args:expr),*)) => {
        match ($ty % NTY, $ety % 6) {
            (t, 0) => with_ty2!(@t t, (), $f, ($($args),*)),
            (t, 1) | (t, 2) => with_ty2!(@t t, u64, $f, ($($args),*)),
            (t, 3) | (t, 4) => with_ty2!(@t t, [u8; 2000], $f, ($($args),*)),
            (t, _) => with_ty2!(@t t, A64, $f, ($($args),*)),
        }
    };
    (@t $t:expr, $e:ty, $f:ident, ($($args:expr),*)) => {
        match $t {
            0 => $f::<M, (), $e>($($args),*),
            1 => $f::<M, u8, $e>($($args),*),
            9 => $f::<M, A64, $e>($($args),*),
            12 => $f::<M, A4096, $e>($($args),*),
            13 => $f::<M, A128, $e>($($args),*),
            10 => $f::<M, [u8; 2000], $e>($($args),*),
            11 => $f::<M, [u8; 5000], $e>($($args),*),
            _ => $f::<M, u64, $e>($($args),*),
        }
    };
}

fn pat(seed: u64, i: usize) -> u8 {
    let x = seed
        .wrapping_mul(0x9E37_79B9_7F4A_7C15)
        .wrapping_add((i as u64).wrapping_mul(0xBF58_476D_1CE4_E5B9));
    ((x >> 29) ^ (x >> 7)) as u8 | 1
}

fn mk<T: Copy>(seed: u64) -> T {
    unsafe {
        let mut v = std::mem::MaybeUninit::<T>::uninit();
        let p = v.as_mut_ptr() as *mut u8;
        for i in 0..std::mem::size_of::<T>() {
            *p.add(i) = pat(seed, i);
        }
        v.assume_init()
    }
}

fn bytes_of<T: Copy>(v: &T) -> Vec<u8> {
    unsafe { std::slice::from_raw_parts(v as *const T as *const u8, std::mem::size_of::<T>()).to_vec() }
}

// ---------------------------------------------------------------- driver state

struct Blk {
    id: i64,
    ptr: usize,
    size: usize,
    align: usize,
    shadow: Vec<u8>,
}

#[derive(Clone, Copy)]
struct GaBlock {
    vaddr: usize,
    size: usize,
}

#[derive(Default)]
struct Shared {
    live: Vec<Blk>,
    next_id: i64,
    cb: Vec<i64>,
    newb: Vec<[i64; 4]>,
    dead: Vec<i64>,
    errdrops: i64,
    seed: u64,
}

thread_local! {
    static SH: RefCell<Shared> = RefCell::new(Shared::default());
    static STORES: RefCell<Vec<[i64; 3]>> = const { RefCell::new(Vec::new()) };
}

thread_local! {
    static CB_COUNT: std::cell::Cell<i64> = const { std::cell::Cell::new(0) };
    static CB_PANIC_AT: std::cell::Cell<i64> = const { std::cell::Cell::new(-1) };
    static CB_FIRED: std::cell::Cell<bool> = const { std::cell::Cell::new(false) };
}

/// Called by every harness callback (initialiser closure, Clone, iterator step): the programmed one panics.
fn cb_tick() {
    let n = CB_COUNT.with(|c| {
        let n = c.get();
        c.set(n + 1);
        n
    });
    if n == CB_PANIC_AT.with(|c| c.get()) {
        CB_FIRED.with(|c| c.set(true));
        panic!("programmed initialiser panic");
    }
}

fn store_sink(footer: usize, is_sentinel: bool, site: u8) {
    let _g = rec::pause();
    let v = to_v(footer);
    let _ = STORES.try_with(|s| s.borrow_mut().push([v, is_sentinel as i64, site as i64]));
}

pub fn sentinel_v() -> i64 {
    let (s, _) = bumpalo::__verif::sentinel();
    (rec::SENTINEL_VBASE + (s % 4096)) as i64
}

/// Real address -> logged (virtual) address. Sentinel-relative pointers map to a
/// small fixed window; anything else outside the region is -1 ("foreign").
pub fn to_v(p: usize) -> i64 {
    if let Some(v) = rec::vaddr(p) {
        return v as i64;
    }
    let (s, _) = bumpalo::__verif::sentinel();
    if p + 4096 >= s && p < s + 4096 {
        return sentinel_v() + (p as i64 - s as i64);
    }
    -1
}

/// Error token with an observable destructor.
pub struct ErrTok<E: Copy> {
    pub payload: E,
    pub armed: bool,
}
impl<E: Copy> Drop for ErrTok<E> {
    fn drop(&mut self) {
        if self.armed {
            let _g = rec::pause();
            SH.with(|s| s.borrow_mut().errdrops += 1);
        }
    }
}

#[derive(Clone, Copy)]
struct Cl<T: Copy>(T);
// A Clone that logs each call (used by slice_clone / fill_clone).
struct LogClone<T: Copy>(T, i64);
impl<T: Copy> Clone for LogClone<T> {
    fn clone(&self) -> Self {
        cb_tick();
        let _g = rec::pause();
        SH.with(|s| s.borrow_mut().cb.push(self.1));
        LogClone(self.0, self.1)
    }
}

struct St<const M: usize> {
    bump: Option<Bump<M>>,
    gablocks: Vec<GaBlock>,
    last_layout: Option<(usize, usize)>,
    prog: usize,
    step: usize,
    th: usize,
    out: Vec<Event>,
    tag: String,
}

fn fault_of(kind: u8, k: usize) -> Fault {
    match kind {
        1 => Fault::Kth(k),
        2 => Fault::FromKth(k),
        3 => Fault::AtLeast(k),
        4 => Fault::All,
        _ => Fault::None,
    }
}

fn register(ptr: usize, size: usize, align: usize, shadow: Vec<u8>) -> i64 {
    SH.with(|s| {
        let mut s = s.borrow_mut();
        let id = s.next_id;
        s.next_id += 1;
        s.newb.push([id, to_v(ptr), size as i64, align as i64]);
        s.live.push(Blk { id, ptr, size, align, shadow });
        id
    })
}

fn next_seed() -> u64 {
    SH.with(|s| {
        let mut s = s.borrow_mut();
        s.seed = s.seed.wrapping_mul(6364136223846793005).wrapping_add(1442695040888963407);
        s.seed >> 11
    })
}

fn kill(id: i64) {
    SH.with(|s| {
        let mut s = s.borrow_mut();
        s.live.retain(|b| b.id != id);
        s.dead.push(id);
    })
}

fn read_bytes(ptr: usize, n: usize) -> Vec<u8> {
    if n == 0 {
        return Vec::new();
    }
    unsafe { std::slice::from_raw_parts(ptr as *const u8, n).to_vec() }
}

fn readable(ptr: usize, n: usize) -> bool {
    n == 0 || (rec::in_region(ptr) && rec::in_region(ptr + n - 1))
}

/// Outcome of running one closure against the arena.
enum Out {
    Ok(usize),      // returned address (real)
    Err,
    InitErr,
    Panic,
    None,           // no result (reset, limit, ...)
}

impl<const M: usize> St<M> {
    fn snapshot(&mut self, ev: &mut Event) {
        ev.sent = sentinel_v();
        ev.salign = bumpalo::__verif::sentinel().1 as i64;
        if let Some(b) = self.bump.as_ref() {
            let raw: Vec<(usize, usize)> =
                unsafe { b.iter_allocated_chunks_raw().map(|(p, l)| (p as usize, l)).collect() };
            for (p, l) in raw {
                let finger = to_v(p);
                let footer = if finger < 0 { -1 } else { finger + l as i64 };
                let data = self
                    .gablocks
                    .iter()
                    .find(|g| (g.vaddr as i64) <= finger && finger <= (g.vaddr + g.size) as i64)
                    .map(|g| g.vaddr as i64)
                    .unwrap_or(-1);
                ev.chunks.push([data, footer, finger]);
            }
            ev.ab = b.allocated_bytes() as i64;
            ev.abm = b.allocated_bytes_including_metadata() as i64;
            ev.cap = b.chunk_capacity() as i64;
            ev.lim = b.allocation_limit().map(|l| l.min(i32::MAX as usize) as i64).unwrap_or(-1);
        } else {
            ev.ab = 0;
            ev.abm = 0;
            ev.cap = 0;
            ev.lim = -1;
        }
    }

    fn apply_ga(&mut self, ga: &[GaEvent], ev: &mut Event) {
        for g in ga {
            let k = match g.kind {
                Kind::Alloc => 1,
                Kind::Free => 2,
                Kind::Realloc => 3,
            };
            let a = if g.vaddr == usize::MAX { -1 } else { g.vaddr as i64 };
            ev.ga.push([k, g.size.min(i32::MAX as usize) as i64, g.align as i64, a, g.ok as i64]);
            if g.kind == Kind::Alloc && g.ok {
                self.gablocks.push(GaBlock { vaddr: g.vaddr, size: g.size });
            }
            if g.kind == Kind::Free && g.ok {
                if let Some(pos) = self.gablocks.iter().position(|b| b.vaddr == g.vaddr) {
                    self.gablocks.remove(pos);
                }
            }
        }
    }

    fn verify_live(&self, ev: &mut Event) {
        SH.with(|s| {
            let s = s.borrow();
            for b in &s.live {
                if !readable(b.ptr, b.size) {
                    ev.corrupt.push(b.id);
                    continue;
                }
                if read_bytes(b.ptr, b.size) != b.shadow {
                    ev.corrupt.push(b.id);
                }
            }
        });
    }

    /// Write a fresh pattern through the pointer of the newest and of one older live block.
    fn rewrite_some(&self) {
        SH.with(|s| {
            let mut s = s.borrow_mut();
            let n = s.live.len();
            if n == 0 {
                return;
            }
            s.seed = s.seed.wrapping_mul(6364136223846793005).wrapping_add(1442695040888963407);
            let seed = s.seed >> 11;
            let pick = [(n - 1), (seed as usize) % n];
            for &k in &pick {
                let b = &mut s.live[k];
                if !readable(b.ptr, b.size) {
                    continue;
                }
                for i in 0..b.size {
                    let v = pat(seed ^ (b.id as u64), i);
                    unsafe { *((b.ptr + i) as *mut u8) = v };
                    b.shadow[i] = v;
                }
            }
        });
    }

    /// Run one API call under recording and produce its event.
    fn call<F: FnOnce(&mut Option<Bump<M>>) -> Out>(&mut self, mut ev: Event, f: F) -> Out {
        ev.p = self.prog;
        ev.i = self.step;
        ev.ma = M;
        ev.th = self.th;
        ev.tag = self.tag.clone();
        SH.with(|s| {
            let mut s = s.borrow_mut();
            s.cb.clear();
            s.newb.clear();
            s.dead.clear();
            s.errdrops = 0;
        });
        STORES.with(|s| s.borrow_mut().clear());
        CB_COUNT.with(|c| c.set(0));
        CB_FIRED.with(|c| c.set(false));
        let mut bump = self.bump.take();
        // an arena that holds no memory points at the shared static empty chunk: nothing it does may store there
        let guarded = self.gablocks.is_empty();
        if guarded {
            crate::sentguard::take_hits();
            crate::sentguard::protect();
        }
        rec::begin();
        let r = catch_unwind(AssertUnwindSafe(|| f(&mut bump)));
        let ga = rec::end();
        if guarded {
            crate::sentguard::unprotect();
            let (hits, off) = crate::sentguard::take_hits();
            if hits > 0 {
                // reported like a hooked store into the sentinel (site 90 + byte offset of the field written)
                let _ = STORES.try_with(|s| s.borrow_mut().push([sentinel_v(), 1, 90 + off as i64]));
            }
        }
        rec::clear_panicking();
        let hung = rec::take_hung();
        let pmsg = rec::take_panic_msg();
        ev.pp = CB_FIRED.with(|c| c.get()) as u8;
        CB_PANIC_AT.with(|c| c.set(-1));
        self.bump = bump;
        let out = match r {
            Ok(o) => o,
            Err(_payload) => Out::Panic,
        };
        ev.res = match &out {
            Out::Ok(_) | Out::None => "ok",
            Out::Err => "err",
            Out::InitErr => "initerr",
            Out::Panic => "panic",
        }
        .to_string();
        if hung {
            ev.res = "hang".to_string();
        }
        if matches!(out, Out::Panic) {
            ev.msg = pmsg.chars().take(160).collect();
        }
        if let Out::Ok(p) = out {
            ev.addr = to_v(p);
        }
        self.apply_ga(&ga, &mut ev);
        SH.with(|s| {
            let s = s.borrow();
            ev.cb = s.cb.clone();
            ev.new = s.newb.clone();
            ev.dead = s.dead.clone();
            ev.errdrops = s.errdrops;
        });
        ev.stores = STORES.with(|s| s.borrow().clone());
        self.snapshot(&mut ev);
        self.verify_live(&mut ev);
        self.rewrite_some();
        self.step += 1;
        self.out.push(ev);
        out
    }
}

fn base_event(op: &str) -> Event {
    Event {
        op: op.to_string(),
        size: -1,
        align: -1,
        len: -1,
        blk: -1,
        cbn: -1,
        errtok: -1,
        ptr: -1,
        oalign: -1,
        failat: -1,
        init_ok: 1,
        prefix_ok: 1,
        zero_ok: 1,
        ..Default::default()
    }
}

// ------------------------------------------------------------ typed helpers

fn do_val<const M: usize, T: Copy + 'static>(st: &mut St<M>, with: bool, fallible: bool) {
    let mut ev = base_event(match (with, fallible) {
        (false, false) => "alloc",
        (false, true) => "try_alloc",
        (true, false) => "alloc_with",
        (true, true) => "try_alloc_with",
    });
    ev.fall = fallible as u8;
    ev.size = std::mem::size_of::<T>() as i64;
    ev.align = std::mem::align_of::<T>() as i64;
    ev.cbn = if with { 1 } else { -1 };
    let seed = next_seed();
    let v: T = mk(seed);
    st.last_layout = Some((std::mem::size_of::<T>(), std::mem::align_of::<T>()));
    st.call(ev, |b| {
        let bump = match b.as_ref() {
            Some(b) => b,
            None => return Out::None,
        };
        let f = || {
            cb_tick();
            let _g = rec::pause();
            SH.with(|s| s.borrow_mut().cb.push(0));
            v
        };
        let r: Result<&mut T, ()> = match (with, fallible) {
            (false, false) => Ok(bump.alloc(v)),
            (false, true) => bump.try_alloc(v).map_err(|_| ()),
            (true, false) => Ok(bump.alloc_with(f)),
            (true, true) => bump.try_alloc_with(f).map_err(|_| ()),
        };
        match r {
            Ok(r) => {
                let p = r as *mut T as usize;
                let _g = rec::pause();
                register(p, std::mem::size_of::<T>(), std::mem::align_of::<T>(), bytes_of(&v));
                Out::Ok(p)
            }
            Err(()) => Out::Err,
        }
    });
    fix_init(st);
}

/// After a call that created blocks: check they read back what was supplied
/// (`init_ok`); the shadow was registered from the *source* value.
fn fix_init<const M: usize>(st: &mut St<M>) {
    // corrupt list of the event just pushed already compares the bytes with the
    // source; move entries that concern blocks born in this very event to init_ok.
    if let Some(ev) = st.out.last_mut() {
        let born: Vec<i64> = ev.new.iter().map(|n| n[0]).collect();
        let before = ev.corrupt.len();
        ev.corrupt.retain(|id| !born.contains(id));
        if ev.corrupt.len() != before {
            ev.init_ok = 0;
        }
    }
}

fn do_slice<const M: usize, T: Copy + 'static>(st: &mut St<M>, len: usize, clone: bool, fallible: bool) {
    let mut ev = base_event(match (clone, fallible) {
        (false, false) => "alloc_slice_copy",
        (false, true) => "try_alloc_slice_copy",
        (true, false) => "alloc_slice_clone",
        (true, true) => "try_alloc_slice_clone",
    });
    ev.fall = fallible as u8;
    let esz = std::mem::size_of::<T>();
    ev.size = (esz * len) as i64;
    ev.align = std::mem::align_of::<T>() as i64;
    ev.len = len as i64;
    ev.cbn = if clone { len as i64 } else { -1 };
    let seed = next_seed();
    let src: Vec<T> = (0..len).map(|i| mk::<T>(seed.wrapping_add(i as u64))).collect();
    let srcl: Vec<LogClone<T>> = src.iter().enumerate().map(|(i, v)| LogClone(*v, i as i64)).collect();
    let mut bytes = Vec::new();
    for v in &src {
        bytes.extend_from_slice(&bytes_of(v));
    }
    st.last_layout = Some((esz * len, std::mem::align_of::<T>()));
    let mut clone_ok = true;
    st.call(ev, |b| {
        let bump = match b.as_ref() {
            Some(b) => b,
            None => return Out::None,
        };
        let r: Result<usize, ()> = if !clone {
            if fallible {
                bump.try_alloc_slice_copy(&src[..]).map(|s| s.as_mut_ptr() as usize).map_err(|_| ())
            } else {
                Ok(bump.alloc_slice_copy(&src[..]).as_mut_ptr() as usize)
            }
        } else if fallible {
            bump.try_alloc_slice_clone(&srcl[..]).map(|s| s.as_mut_ptr() as usize).map_err(|_| ())
        } else {
            Ok(bump.alloc_slice_clone(&srcl[..]).as_mut_ptr() as usize)
        };
        match r {
            Ok(p) => {
                let _g = rec::pause();
                // LogClone<T> is (T, i64): only register the copy flavour byte-exactly
                if !clone {
                    register(p, esz * len, std::mem::align_of::<T>(), bytes.clone());
                } else {
                    let sz = std::mem::size_of::<LogClone<T>>() * len;
                    if readable(p, sz) {
                        let got = unsafe { std::slice::from_raw_parts(p as *const LogClone<T>, len) };
                        for (i, g) in got.iter().enumerate() {
                            if bytes_of(&g.0) != bytes_of(&src[i]) || g.1 != i as i64 {
                                clone_ok = false;
                            }
                        }
                    } else {
                        clone_ok = false;
                    }
                    let sh = read_bytes(p, if readable(p, sz) { sz } else { 0 });
                    register(p, sz, std::mem::align_of::<LogClone<T>>(), sh);
                }
                Out::Ok(p)
            }
            Err(()) => Out::Err,
        }
    });
    if clone {
        if let Some(ev) = st.out.last_mut() {
            ev.size = (std::mem::size_of::<LogClone<T>>() * len) as i64;
            ev.align = std::mem::align_of::<LogClone<T>>() as i64;
            st.last_layout = Some((ev.size as usize, ev.align as usize));
            if !clone_ok {
                ev.init_ok = 0;
            }
        }
    }
    fix_init(st);
}

fn do_str<const M: usize>(st: &mut St<M>, len: usize, fallible: bool) {
    let mut ev = base_event(if fallible { "try_alloc_str" } else { "alloc_str" });
    ev.fall = fallible as u8;
    ev.size = len as i64;
    ev.align = 1;
    ev.len = len as i64;
    let seed = next_seed();
    let s: String = (0..len).map(|i| (b'a' + (pat(seed, i) % 26)) as char).collect();
    st.last_layout = Some((len, 1));
    st.call(ev, |b| {
        let bump = match b.as_ref() {
            Some(b) => b,
            None => return Out::None,
        };
        let r = if fallible {
            bump.try_alloc_str(&s).map(|x| x.as_mut_ptr() as usize).map_err(|_| ())
        } else {
            Ok(bump.alloc_str(&s).as_mut_ptr() as usize)
        };
        match r {
            Ok(p) => {
                let _g = rec::pause();
                register(p, len, 1, s.as_bytes().to_vec());
                Out::Ok(p)
            }
            Err(()) => Out::Err,
        }
    });
    fix_init(st);
}

fn do_fill<const M: usize, T: Copy + Default + 'static>(st: &mut St<M>, len: usize, how: u8, fallible: bool) {
    let how = how % 5;
    let names = [
        ["alloc_slice_fill_with", "try_alloc_slice_fill_with"],
        ["alloc_slice_fill_copy", "try_alloc_slice_fill_copy"],
        ["alloc_slice_fill_clone", "try_alloc_slice_fill_clone"],
        ["alloc_slice_fill_iter", "try_alloc_slice_fill_iter"],
        ["alloc_slice_fill_default", "try_alloc_slice_fill_default"],
    ];
    let mut ev = base_event(names[how as usize][fallible as usize]);
    ev.fall = fallible as u8;
    let esz = std::mem::size_of::<T>();
    ev.align = std::mem::align_of::<T>() as i64;
    ev.len = len.min(i32::MAX as usize) as i64;
    ev.size = esz.checked_mul(len).map(|x| x.min(i32::MAX as usize) as i64).unwrap_or(i32::MAX as i64);
    ev.cbn = match how {
        0 | 2 | 3 => ev.len,
        _ => -1,
    };
    let seed = next_seed();
    st.last_layout = Some((esz.saturating_mul(len), std::mem::align_of::<T>()));
    let mut expect: Vec<u8> = Vec::new();
    let small = len <= 1 << 16;
    if small {
        for i in 0..len {
            let v: T = match how {
                0 | 3 => mk(seed.wrapping_add(i as u64)),
                1 | 2 => mk(seed),
                _ => T::default(),
            };
            expect.extend_from_slice(&bytes_of(&v));
        }
    }
    st.call(ev, |b| {
        let bump = match b.as_ref() {
            Some(b) => b,
            None => return Out::None,
        };
        let logf = |i: usize| {
            cb_tick();
            let _g = rec::pause();
            SH.with(|s| s.borrow_mut().cb.push(i as i64));
        };
        let r: Result<usize, ()> = match how {
            0 => {
                let f = |i: usize| {
                    logf(i);
                    mk::<T>(seed.wrapping_add(i as u64))
                };
                if fallible {
                    bump.try_alloc_slice_fill_with(len, f).map(|s| s.as_mut_ptr() as usize).map_err(|_| ())
                } else {
                    Ok(bump.alloc_slice_fill_with(len, f).as_mut_ptr() as usize)
                }
            }
            1 => {
                let v: T = mk(seed);
                if fallible {
                    bump.try_alloc_slice_fill_copy(len, v).map(|s| s.as_mut_ptr() as usize).map_err(|_| ())
                } else {
                    Ok(bump.alloc_slice_fill_copy(len, v).as_mut_ptr() as usize)
                }
            }
            2 => {
                // element type is LogClone<T>; handled separately below through Cl
                let v: T = mk(seed);
                let lc = CountClone(v);
                let r = if fallible {
                    bump.try_alloc_slice_fill_clone(len, &lc).map(|s| s.as_mut_ptr() as usize).map_err(|_| ())
                } else {
                    Ok(bump.alloc_slice_fill_clone(len, &lc).as_mut_ptr() as usize)
                };
                r
            }
            3 => {
                let it = (0..len).map(|i| {
                    logf(i);
                    mk::<T>(seed.wrapping_add(i as u64))
                });
                if fallible {
                    bump.try_alloc_slice_fill_iter(it).map(|s| s.as_mut_ptr() as usize).map_err(|_| ())
                } else {
                    Ok(bump.alloc_slice_fill_iter(it).as_mut_ptr() as usize)
                }
            }
            _ => {
                if fallible {
                    bump.try_alloc_slice_fill_default::<T>(len).map(|s| s.as_mut_ptr() as usize).map_err(|_| ())
                } else {
                    Ok(bump.alloc_slice_fill_default::<T>(len).as_mut_ptr() as usize)
                }
            }
        };
        match r {
            Ok(p) => {
                let _g = rec::pause();
                if small {
                    register(p, esz * len, std::mem::align_of::<T>(), expect.clone());
                } else {
                    // too big to shadow: register extent only (empty shadow = no byte check)
                    register(p, 0, std::mem::align_of::<T>(), Vec::new());
                }
                Out::Ok(p)
            }
            Err(()) => Out::Err,
        }
    });
    fix_init(st);
}

/// Clone that counts calls with their ordinal (for fill_clone the closure has no index).
#[derive(Copy)]
struct CountClone<T: Copy>(T);
impl<T: Copy> Clone for CountClone<T> {
    fn clone(&self) -> Self {
        cb_tick();
        let _g = rec::pause();
        SH.with(|s| {
            let mut s = s.borrow_mut();
            let n = s.cb.len() as i64;
            s.cb.push(n);
        });
        CountClone(self.0)
    }
}

fn run_clos<const M: usize>(bump: &Bump<M>, clos: &Clos) {
    // the initialiser uses the fallible flavour and simply goes without when the arena
    // cannot serve it: a panic of the *caller's* closure would not be the arena's doing
    match clos {
        Clos::Nothing => {}
        Clos::Keep(n) => {
            let seed = next_seed();
            if let Ok(p) = bump.try_alloc_layout(Layout::from_size_align(*n, 1).unwrap()) {
                let p = p.as_ptr() as usize;
                let _g = rec::pause();
                let bytes: Vec<u8> = (0..*n).map(|i| pat(seed, i)).collect();
                unsafe { std::ptr::copy_nonoverlapping(bytes.as_ptr(), p as *mut u8, *n) };
                register(p, *n, 1, bytes);
            }
        }
        Clos::Release(n) => {
            let l = Layout::from_size_align(*n, 1).unwrap();
            if let Ok(p) = bump.try_alloc_layout(l) {
                unsafe { (&bump).deallocate(p, l) };
            }
        }
        Clos::Zst => {
            if let Ok(p) = bump.try_alloc_layout(Layout::from_size_align(0, 1).unwrap()) {
                let p = p.as_ptr() as usize;
                let _g = rec::pause();
                register(p, 0, 1, Vec::new());
            }
        }
    }
}

fn do_try_with<const M: usize, T: Copy + 'static, E: Copy + 'static>(
    st: &mut St<M>,
    ok: bool,
    clos: &Clos,
    fallible: bool,
) {
    let mut ev = base_event(if fallible { "try_alloc_try_with" } else { "alloc_try_with" });
    ev.fall = fallible as u8;
    type R<T, E> = Result<T, ErrTok<E>>;
    ev.size = std::mem::size_of::<R<T, E>>() as i64;
    ev.align = std::mem::align_of::<R<T, E>>() as i64;
    ev.len = std::mem::size_of::<T>() as i64;
    ev.cbn = 1;
    ev.clos = format!("{:?}", clos);
    let (ck, cn) = match clos {
        Clos::Nothing => (0, 0),
        Clos::Keep(n) => (1, *n as i64),
        Clos::Release(n) => (2, *n as i64),
        Clos::Zst => (3, 0),
    };
    ev.closk = ck;
    ev.closn = cn;
    ev.okf = ok as u8;
    ev.off = {
        let probe: R<T, E> = Ok(mk::<T>(0));
        let base = &probe as *const R<T, E> as usize;
        let o = match &probe {
            Ok(t) => t as *const T as usize - base,
            Err(_) => 0,
        };
        o as i64
    };
    ev.errtok = 0;
    let seed = next_seed();
    let v: T = mk(seed);
    let e: E = mk(seed ^ 0x5555);
    st.last_layout = Some((std::mem::size_of::<R<T, E>>(), std::mem::align_of::<R<T, E>>()));
    let mut errtok = 0i64;
    let mut errbytes_ok = true;
    let out = st.call(ev, |b| {
        let bump = match b.as_ref() {
            Some(b) => b,
            None => return Out::None,
        };
        let f = || -> R<T, E> {
            cb_tick();
            {
                let _g = rec::pause();
                SH.with(|s| s.borrow_mut().cb.push(0));
            }
            run_clos(bump, clos);
            if ok {
                Ok(v)
            } else {
                Err(ErrTok { payload: e, armed: true })
            }
        };
        let r: Result<&mut T, Option<ErrTok<E>>> = if fallible {
            bump.try_alloc_try_with(f).map_err(|x| match x {
                bumpalo::AllocOrInitError::Alloc(_) => None,
                bumpalo::AllocOrInitError::Init(e) => Some(e),
            })
        } else {
            bump.alloc_try_with(f).map_err(Some)
        };
        match r {
            Ok(r) => {
                let p = r as *mut T as usize;
                let _g = rec::pause();
                register(p, std::mem::size_of::<T>(), std::mem::align_of::<T>(), bytes_of(&v));
                Out::Ok(p)
            }
            Err(None) => Out::Err,
            Err(Some(mut tok)) => {
                let _g = rec::pause();
                errtok += 1;
                if bytes_of(&tok.payload) != bytes_of(&e) {
                    errbytes_ok = false;
                }
                tok.armed = false; // the caller now owns it; do not count this drop
                Out::InitErr
            }
        }
    });
    if let Some(ev) = st.out.last_mut() {
        ev.errtok = errtok;
        if !errbytes_ok {
            ev.init_ok = 0;
        }
        let _ = out;
    }
    fix_init(st);
}

fn do_try_fill<const M: usize, T: Copy + 'static>(st: &mut St<M>, len: usize, fail_at: i64, iter: bool, at: usize, clos: &Clos) {
    let mut ev = base_event(if iter { "alloc_slice_try_fill_iter" } else { "alloc_slice_try_fill_with" });
    {
        // the initialiser of element `at` allocates in the same arena (only if that callback is reached)
        let reached = at < len && (fail_at < 0 || at as i64 <= fail_at);
        let (ck, cn) = match clos {
            Clos::Nothing => (0, 0),
            Clos::Keep(n) => (1, *n as i64),
            Clos::Release(n) => (2, *n as i64),
            Clos::Zst => (3, 0),
        };
        if reached && ck != 0 {
            ev.clos = format!("{:?}@{}", clos, at);
            ev.closk = ck;
            ev.closn = cn;
        }
    }
    let esz = std::mem::size_of::<T>();
    ev.size = (esz * len) as i64;
    ev.align = std::mem::align_of::<T>() as i64;
    ev.len = len as i64;
    let fails = fail_at >= 0 && (fail_at as usize) < len;
    ev.cbn = if fails { fail_at + 1 } else { len as i64 };
    ev.failat = if fails { fail_at } else { -1 };
    ev.errtok = 0;
    let seed = next_seed();
    let mut expect = Vec::new();
    for i in 0..len {
        expect.extend_from_slice(&bytes_of(&mk::<T>(seed.wrapping_add(i as u64))));
    }
    st.last_layout = Some((esz * len, std::mem::align_of::<T>()));
    let mut errtok = 0i64;
    st.call(ev, |b| {
        let bump = match b.as_ref() {
            Some(b) => b,
            None => return Out::None,
        };
        let mut f = |i: usize| -> Result<T, ErrTok<u64>> {
            cb_tick();
            {
                let _g = rec::pause();
                SH.with(|s| s.borrow_mut().cb.push(i as i64));
            }
            if i == at {
                run_clos(bump, clos);
            }
            let _g = rec::pause();
            if fail_at >= 0 && i as i64 == fail_at {
                Err(ErrTok { payload: 77, armed: true })
            } else {
                Ok(mk::<T>(seed.wrapping_add(i as u64)))
            }
        };
        let r = if iter {
            let it = (0..len).map(&mut f);
            bump.alloc_slice_try_fill_iter(it).map(|s| s.as_mut_ptr() as usize)
        } else {
            bump.alloc_slice_try_fill_with(len, f).map(|s| s.as_mut_ptr() as usize)
        };
        match r {
            Ok(p) => {
                let _g = rec::pause();
                register(p, esz * len, std::mem::align_of::<T>(), expect.clone());
                Out::Ok(p)
            }
            Err(mut tok) => {
                let _g = rec::pause();
                errtok += 1;
                tok.armed = false;
                Out::InitErr
            }
        }
    });
    if let Some(ev) = st.out.last_mut() {
        ev.errtok = errtok;
    }
    fix_init(st);
}

// ------------------------------------------------------------ the interpreter

/// index (creation order) of the live block that is `r`-th in (address, size, align) order
fn rank_to_index(r: usize) -> Option<usize> {
    SH.with(|s| {
        let s = s.borrow();
        let mut idx: Vec<usize> = (0..s.live.len()).collect();
        idx.sort_by_key(|&i| (s.live[i].ptr, s.live[i].size, s.live[i].align));
        idx.get(r).cloned()
    })
}

fn live_pick(b: usize) -> Option<(i64, usize, usize, usize)> {
    SH.with(|s| {
        let s = s.borrow();
        if s.live.is_empty() {
            None
        } else {
            let k = b % s.live.len();
            let x = &s.live[k];
            Some((x.id, x.ptr, x.size, x.align))
        }
    })
}

fn step<const M: usize>(st: &mut St<M>, op: &Op) {
    match op {
        Op::New { cap, fallible } => {
            let mut ev = base_event(match (cap, fallible) {
                (None, _) => "new",
                (Some(_), false) => "with_capacity",
                (Some(_), true) => "try_with_capacity",
            });
            ev.fall = *fallible as u8;
            ev.len = cap.map(|c| c.min(i32::MAX as usize) as i64).unwrap_or(-1);
            let cap = *cap;
            let fallible = *fallible;
            // a previous arena, if any, is dropped first (its own event)
            if st.bump.is_some() {
                step(st, &Op::Drop);
            }
            st.call(ev, |b| {
                let r = match cap {
                    None => Ok(Bump::<M>::with_min_align()),
                    Some(c) if fallible => Bump::<M>::try_with_min_align_and_capacity(c).map_err(|_| ()),
                    Some(c) => Ok(Bump::<M>::with_min_align_and_capacity(c)),
                };
                match r {
                    Ok(x) => {
                        *b = Some(x);
                        Out::None
                    }
                    Err(()) => Out::Err,
                }
            });
        }
        Op::Layout { size, align, fallible } => {
            let mut ev = base_event(if *fallible { "try_alloc_layout" } else { "alloc_layout" });
            ev.fall = *fallible as u8;
            ev.size = (*size).min(i32::MAX as usize) as i64;
            ev.align = *align as i64;
            let (size, align, fallible) = (*size, *align, *fallible);
            let l = match Layout::from_size_align(size, align) {
                Ok(l) => l,
                Err(_) => return,
            };
            st.last_layout = Some((size, align));
            let seed = next_seed();
            st.call(ev, |b| {
                let bump = match b.as_ref() {
                    Some(b) => b,
                    None => return Out::None,
                };
                let r = if fallible { bump.try_alloc_layout(l).map_err(|_| ()) } else { Ok(bump.alloc_layout(l)) };
                match r {
                    Ok(p) => {
                        let p = p.as_ptr() as usize;
                        let _g = rec::pause();
                        let n = if size <= 1 << 20 && readable(p, size) { size } else { 0 };
                        let bytes: Vec<u8> = (0..n).map(|i| pat(seed, i)).collect();
                        if n > 0 {
                            unsafe { std::ptr::copy_nonoverlapping(bytes.as_ptr(), p as *mut u8, n) };
                        }
                        register_ext(p, size, align, bytes);
                        Out::Ok(p)
                    }
                    Err(()) => Out::Err,
                }
            });
        }
        Op::Val { ty, with, fallible } => with_ty!(*ty, do_val, (st, *with, *fallible)),
        Op::SliceCopy { ty, len, fallible } => with_ty!(*ty, do_slice, (st, *len, false, *fallible)),
        Op::SliceClone { ty, len, fallible } => with_ty!(*ty, do_slice, (st, *len, true, *fallible)),
        Op::Str { len, fallible } => do_str(st, *len, *fallible),
        Op::Fill { ty, len, how, fallible } => match ty % 6 {
            0 => do_fill::<M, ()>(st, *len, *how, *fallible),
            1 => do_fill::<M, u8>(st, *len, *how, *fallible),
            2 => do_fill::<M, u16>(st, *len, *how, *fallible),
            3 => do_fill::<M, u32>(st, *len, *how, *fallible),
            4 => do_fill::<M, u64>(st, *len, *how, *fallible),
            _ => do_fill::<M, u128>(st, *len, *how, *fallible),
        },
        Op::TryWith { ty, ety, ok, clos, fallible } => with_ty2!(*ty, *ety, do_try_with, (st, *ok, clos, *fallible)),
        Op::TryFill { ty, len, fail_at, iter } => match ty % 6 {
            0 => do_try_fill::<M, ()>(st, *len, *fail_at, *iter, usize::MAX, &Clos::Nothing),
            1 => do_try_fill::<M, u8>(st, *len, *fail_at, *iter, usize::MAX, &Clos::Nothing),
            2 => do_try_fill::<M, u16>(st, *len, *fail_at, *iter, usize::MAX, &Clos::Nothing),
            3 => do_try_fill::<M, u32>(st, *len, *fail_at, *iter, usize::MAX, &Clos::Nothing),
            4 => do_try_fill::<M, u64>(st, *len, *fail_at, *iter, usize::MAX, &Clos::Nothing),
            _ => do_try_fill::<M, u128>(st, *len, *fail_at, *iter, usize::MAX, &Clos::Nothing),
        },
        Op::TryFillClos { ty, len, fail_at, iter, at, clos } => match ty % 6 {
            0 => do_try_fill::<M, ()>(st, *len, *fail_at, *iter, *at, clos),
            1 => do_try_fill::<M, u8>(st, *len, *fail_at, *iter, *at, clos),
            2 => do_try_fill::<M, u16>(st, *len, *fail_at, *iter, *at, clos),
            3 => do_try_fill::<M, u32>(st, *len, *fail_at, *iter, *at, clos),
            4 => do_try_fill::<M, u64>(st, *len, *fail_at, *iter, *at, clos),
            _ => do_try_fill::<M, u128>(st, *len, *fail_at, *iter, *at, clos),
        },
        Op::Allocate { size, align, zeroed } => {
            let mut ev = base_event(if *zeroed { "allocate_zeroed" } else { "allocate" });
            ev.fall = 1;
            ev.size = *size as i64;
            ev.align = *align as i64;
            let (size, align, zeroed) = (*size, *align, *zeroed);
            let l = match Layout::from_size_align(size, align) {
                Ok(l) => l,
                Err(_) => return,
            };
            st.last_layout = Some((size, align));
            let seed = next_seed();
            let mut zero_ok = true;
            st.call(ev, |b| {
                let bump = match b.as_ref() {
                    Some(b) => b,
                    None => return Out::None,
                };
                let r = if zeroed { (&bump).allocate_zeroed(l) } else { (&bump).allocate(l) };
                match r {
                    Ok(p) => {
                        let rlen = p.len();
                        let p = p.as_ptr() as *mut u8 as usize;
                        let _g = rec::pause();
                        if rlen < size {
                            zero_ok = false;
                        }
                        if zeroed && readable(p, size) && read_bytes(p, size).iter().any(|&x| x != 0) {
                            zero_ok = false;
                        }
                        let n = if readable(p, size) { size } else { 0 };
                        let bytes: Vec<u8> = (0..n).map(|i| pat(seed, i)).collect();
                        if n > 0 {
                            unsafe { std::ptr::copy_nonoverlapping(bytes.as_ptr(), p as *mut u8, n) };
                        }
                        register_ext(p, size, align, bytes);
                        Out::Ok(p)
                    }
                    Err(_) => Out::Err,
                }
            });
            if let Some(ev) = st.out.last_mut() {
                ev.zero_ok = zero_ok as u8;
            }
        }
        Op::Dealloc { b } => {
            let (id, ptr, size, align) = match live_pick(*b) {
                Some(x) => x,
                None => return,
            };
            let mut ev = base_event("deallocate");
            ev.size = size as i64;
            ev.align = align as i64;
            ev.blk = id;
            ev.ptr = to_v(ptr);
            ev.len = size as i64;
            ev.oalign = align as i64;
            st.call(ev, |b| {
                let bump = match b.as_ref() {
                    Some(b) => b,
                    None => return Out::None,
                };
                unsafe { (&bump).deallocate(NonNull::new_unchecked(ptr as *mut u8), Layout::from_size_align_unchecked(size, align)) };
                let _g = rec::pause();
                kill(id);
                Out::None
            });
        }
        Op::Grow { b, size, align, zeroed } => {
            let (id, ptr, osize, oalign) = match live_pick(*b) {
                Some(x) => x,
                None => return,
            };
            let nsize = osize + *size; // `size` is the increment
            let nalign = *align;
            let nl = match Layout::from_size_align(nsize, nalign) {
                Ok(l) => l,
                Err(_) => return,
            };
            let mut ev = base_event(if *zeroed { "grow_zeroed" } else { "grow" });
            ev.fall = 1;
            ev.size = nsize as i64;
            ev.align = nalign as i64;
            ev.len = osize as i64;
            ev.blk = id;
            ev.ptr = to_v(ptr);
            ev.oalign = oalign as i64;
            let zeroed = *zeroed;
            st.last_layout = Some((nsize, nalign));
            let old_shadow: Vec<u8> = SH.with(|s| s.borrow().live.iter().find(|x| x.id == id).map(|x| x.shadow.clone()).unwrap_or_default());
            let (mut prefix_ok, mut zero_ok) = (true, true);
            let seed = next_seed();
            st.call(ev, |b| {
                let bump = match b.as_ref() {
                    Some(b) => b,
                    None => return Out::None,
                };
                let ol = unsafe { Layout::from_size_align_unchecked(osize, oalign) };
                let p0 = unsafe { NonNull::new_unchecked(ptr as *mut u8) };
                let r = unsafe {
                    if zeroed {
                        (&bump).grow_zeroed(p0, ol, nl)
                    } else {
                        (&bump).grow(p0, ol, nl)
                    }
                };
                match r {
                    Ok(p) => {
                        let rlen = p.len();
                        let p = p.as_ptr() as *mut u8 as usize;
                        let _g = rec::pause();
                        if rlen < nsize {
                            prefix_ok = false;
                        }
                        if readable(p, nsize) {
                            let now = read_bytes(p, nsize);
                            if now[..osize] != old_shadow[..] {
                                prefix_ok = false;
                            }
                            if zeroed && now[osize..].iter().any(|&x| x != 0) {
                                zero_ok = false;
                            }
                        } else {
                            prefix_ok = false;
                        }
                        kill(id);
                        let n = if readable(p, nsize) { nsize } else { 0 };
                        let bytes: Vec<u8> = (0..n).map(|i| pat(seed, i)).collect();
                        if n > 0 {
                            unsafe { std::ptr::copy_nonoverlapping(bytes.as_ptr(), p as *mut u8, n) };
                        }
                        register_ext(p, nsize, nalign, bytes);
                        Out::Ok(p)
                    }
                    Err(_) => Out::Err,
                }
            });
            if let Some(ev) = st.out.last_mut() {
                ev.prefix_ok = prefix_ok as u8;
                ev.zero_ok = zero_ok as u8;
            }
        }
        Op::Shrink { b, size, align } => {
            let (id, ptr, osize, oalign) = match live_pick(*b) {
                Some(x) => x,
                None => return,
            };
            let nsize = osize.saturating_sub(*size); // `size` is the decrement
            let nalign = *align;
            let nl = match Layout::from_size_align(nsize, nalign) {
                Ok(l) => l,
                Err(_) => return,
            };
            let mut ev = base_event("shrink");
            ev.fall = 1;
            ev.size = nsize as i64;
            ev.align = nalign as i64;
            ev.len = osize as i64;
            ev.blk = id;
            ev.ptr = to_v(ptr);
            ev.oalign = oalign as i64;
            st.last_layout = Some((nsize, nalign));
            let old_shadow: Vec<u8> = SH.with(|s| s.borrow().live.iter().find(|x| x.id == id).map(|x| x.shadow.clone()).unwrap_or_default());
            let mut prefix_ok = true;
            let seed = next_seed();
            st.call(ev, |b| {
                let bump = match b.as_ref() {
                    Some(b) => b,
                    None => return Out::None,
                };
                let ol = unsafe { Layout::from_size_align_unchecked(osize, oalign) };
                let p0 = unsafe { NonNull::new_unchecked(ptr as *mut u8) };
                let r = unsafe { (&bump).shrink(p0, ol, nl) };
                match r {
                    Ok(p) => {
                        let rlen = p.len();
                        let p = p.as_ptr() as *mut u8 as usize;
                        let _g = rec::pause();
                        if rlen < nsize {
                            prefix_ok = false;
                        }
                        if readable(p, nsize) {
                            if read_bytes(p, nsize)[..] != old_shadow[..nsize] {
                                prefix_ok = false;
                            }
                        } else {
                            prefix_ok = false;
                        }
                        kill(id);
                        let n = if readable(p, nsize) { nsize } else { 0 };
                        let bytes: Vec<u8> = (0..n).map(|i| pat(seed, i)).collect();
                        if n > 0 {
                            unsafe { std::ptr::copy_nonoverlapping(bytes.as_ptr(), p as *mut u8, n) };
                        }
                        register_ext(p, nsize, nalign, bytes);
                        Out::Ok(p)
                    }
                    Err(_) => Out::Err,
                }
            });
            if let Some(ev) = st.out.last_mut() {
                ev.prefix_ok = prefix_ok as u8;
            }
        }
        Op::Reset => {
            let ev = base_event("reset");
            st.call(ev, |b| {
                if let Some(b) = b.as_mut() {
                    b.reset();
                    let _g = rec::pause();
                    let ids: Vec<i64> = SH.with(|s| s.borrow().live.iter().map(|x| x.id).collect());
                    for id in ids {
                        kill(id);
                    }
                }
                Out::None
            });
        }
        Op::Limit { lim } => {
            let mut ev = base_event("set_limit");
            ev.len = lim.map(|l| l.min(i32::MAX as usize) as i64).unwrap_or(-1);
            let lim = *lim;
            st.call(ev, |b| {
                if let Some(b) = b.as_ref() {
                    b.set_allocation_limit(lim);
                }
                Out::None
            });
        }
        Op::Iter => {
            let ev = base_event("iter");
            let mut it = Vec::new();
            let mut itraw = Vec::new();
            st.call(ev, |b| {
                if let Some(b) = b.as_mut() {
                    let (mut raw, mut safe): (Vec<(usize, usize)>, Vec<(usize, usize)>) = {
                        let _g = rec::pause();
                        (Vec::with_capacity(512), Vec::with_capacity(512))
                    };
                    for (p, l) in unsafe { b.iter_allocated_chunks_raw() } {
                        raw.push((p as usize, l));
                    }
                    for s in b.iter_allocated_chunks() {
                        safe.push((s.as_ptr() as usize, s.len()));
                    }
                    let _g = rec::pause();
                    for (p, l) in safe {
                        it.push([to_v(p), l as i64]);
                    }
                    for (p, l) in raw {
                        itraw.push([to_v(p), l as i64]);
                    }
                }
                Out::None
            });
            if let Some(ev) = st.out.last_mut() {
                ev.it = it;
                ev.itraw = itraw;
            }
        }
        Op::Drop => {
            if st.bump.is_none() {
                return;
            }
            let ev = base_event("drop");
            st.call(ev, |b| {
                let x = b.take();
                drop(x);
                let _g = rec::pause();
                let ids: Vec<i64> = SH.with(|s| s.borrow().live.iter().map(|x| x.id).collect());
                for id in ids {
                    kill(id);
                }
                Out::None
            });
        }
        Op::Fault { kind, k } => rec::set_fault(fault_of(*kind, *k)),
        Op::Place { kind, k } => rec::set_placement(match kind {
            1 => Placement::Page,
            2 => Placement::Residue(*k),
            _ => Placement::Minimal,
        }),
        Op::FillCap { parts } => {
            let cap = match st.bump.as_ref() {
                Some(b) => b.chunk_capacity(),
                None => return,
            };
            let parts = (*parts).max(1);
            // split `cap` into `parts` requests whose sizes are multiples of MIN_ALIGN
            let unit = (cap / parts) / M.max(1) * M.max(1);
            let mut left = cap;
            for k in 0..parts {
                let sz = if k + 1 == parts { left } else { unit };
                left -= sz;
                step(st, &Op::Layout { size: sz, align: 1, fallible: true });
                if let Some(ev) = st.out.last_mut() {
                    ev.follow = 2; // capacity probe: must not reach the global allocator
                }
            }
        }
        Op::Bulk { size, align, count } => {
            let mut ev = base_event("bulk");
            ev.fall = 1;
            ev.size = *size as i64;
            ev.align = *align as i64;
            ev.len = *count as i64;
            let (size, align, count) = (*size, *align, *count);
            let l = match Layout::from_size_align(size, align) {
                Ok(l) => l,
                Err(_) => return,
            };
            let mut done = 0i64;
            st.call(ev, |b| {
                let bump = match b.as_ref() {
                    Some(b) => b,
                    None => return Out::None,
                };
                for _ in 0..count {
                    match bump.try_alloc_layout(l) {
                        Ok(p) => {
                            if size > 0 {
                                unsafe { *p.as_ptr() = 0xAB };
                            }
                            done += 1;
                        }
                        Err(_) => return Out::Err,
                    }
                }
                Out::None
            });
            if let Some(ev) = st.out.last_mut() {
                ev.blk = done;
            }
        }
        Op::Again => {
            if let Some((size, align)) = st.last_layout {
                step(st, &Op::Layout { size, align, fallible: true });
                if let Some(ev) = st.out.last_mut() {
                    ev.follow = 1;
                }
            }
        }
        Op::PanicAtCb { n } => CB_PANIC_AT.with(|c| c.set(*n)),
        Op::DeallocR { r } => {
            if let Some(b) = rank_to_index(*r) {
                step(st, &Op::Dealloc { b });
            }
        }
        Op::GrowR { r, size, align, zeroed } => {
            if let Some(b) = rank_to_index(*r) {
                step(st, &Op::Grow { b, size: *size, align: *align, zeroed: *zeroed });
            }
        }
        Op::ShrinkR { r, size, align } => {
            if let Some(b) = rank_to_index(*r) {
                step(st, &Op::Shrink { b, size: *size, align: *align });
            }
        }
        Op::OnThread { ops } => {
            // hand the idle arena to another thread, use it there, take it back
            let bump = st.bump.take();
            let mut st2 = St::<M> {
                bump,
                gablocks: std::mem::take(&mut st.gablocks),
                last_layout: st.last_layout,
                prog: st.prog,
                step: st.step,
                th: st.th + 1,
                out: Vec::new(),
                tag: st.tag.clone(),
            };
            let shared = SH.with(|s| std::mem::take(&mut *s.borrow_mut()));
            let ops = ops.clone();
            // Whether `Bump<M>` *is* Send is a compile-time question decided by the probes of C05 / C20; here the
            // hand-over is performed regardless (the wrapper keeps this driver compiling whatever the crate declares).
            struct Hand<T>(T);
            unsafe impl<T> Send for Hand<T> {}
            let hand = Hand((st2, shared));
            let Hand((st2, shared)) = std::thread::scope(|sc| {
                sc.spawn(move || {
                    let hand = hand;
                    let Hand((mut st2, shared)) = hand;
                    rec::set_slice(1);
                    SH.with(|s| *s.borrow_mut() = shared);
                    for op in &ops {
                        step(&mut st2, op);
                    }
                    let shared = SH.with(|s| std::mem::take(&mut *s.borrow_mut()));
                    Hand((st2, shared))
                })
                .join()
                .unwrap()
            });
            SH.with(|s| *s.borrow_mut() = shared);
            st.bump = st2.bump;
            st.gablocks = st2.gablocks;
            st.last_layout = st2.last_layout;
            st.step = st2.step;
            st.out.extend(st2.out);
        }
    }
}

fn register_ext(p: usize, size: usize, align: usize, bytes: Vec<u8>) -> i64 {
    // blocks too large to shadow are registered with their true extent but an empty
    // shadow; verify_live compares only `shadow.len()` bytes in that case
    SH.with(|s| {
        let mut s = s.borrow_mut();
        let id = s.next_id;
        s.next_id += 1;
        s.newb.push([id, to_v(p), size.min(i32::MAX as usize) as i64, align as i64]);
        let sz = bytes.len();
        s.live.push(Blk { id, ptr: p, size: sz, align, shadow: bytes });
        id
    })
}

fn run_m<const M: usize>(pidx: usize, prog: &Program) -> Vec<Event> {
    rec::reset_slice();
    rec::set_placement(Placement::Minimal);
    SH.with(|s| {
        let mut s = s.borrow_mut();
        *s = Shared::default();
        s.seed = 0x1234_5678 ^ (pidx as u64);
    });
    let mut st = St::<M> {
        bump: None,
        gablocks: Vec::new(),
        last_layout: None,
        prog: pidx,
        step: 0,
        th: 0,
        out: Vec::new(),
        tag: prog.tag.clone(),
    };
    for op in &prog.ops {
        step(&mut st, op);
    }
    // probe suffix: a few more allocations and an iteration, so that a bump pointer that was
    // left in the wrong place shows up as a real overlap / a live block missing from the chunks
    if st.bump.is_some() && !prog.tag.starts_with("volume") {
        rec::set_fault(Fault::None);
        st.tag = "probe".to_string();
        for op in [Op::Iter, Op::Layout { size: 1, align: 1, fallible: true }, Op::Layout { size: 12, align: 4, fallible: true },
                   Op::Layout { size: 64, align: 8, fallible: true }, Op::Iter] {
            step(&mut st, &op);
        }
    }
    // the arena is always dropped at the end (its own event) so that the ledger closes
    step(&mut st, &Op::Drop);
    rec::set_fault(Fault::None);
    // deep-copy outside the recorder's region (which the next program recycles)
    let out_region = std::mem::take(&mut st.out);
    let out = out_region.clone();
    drop(out_region);
    out
}

/// For unsupported MIN_ALIGN values only the constructors are exercised.
fn run_ctor_only<const M: usize>(pidx: usize, prog: &Program) -> Vec<Event> {
    rec::reset_slice();
    let mut out = Vec::new();
    for (i, op) in prog.ops.iter().enumerate() {
        if let Op::New { cap, fallible } = op {
            let mut ev = base_event(match (cap, fallible) {
                (None, _) => "new",
                (Some(_), false) => "with_capacity",
                (Some(_), true) => "try_with_capacity",
            });
            ev.p = pidx;
            ev.i = i;
            ev.ma = M;
            ev.fall = *fallible as u8;
            ev.len = cap.map(|c| c as i64).unwrap_or(-1);
            ev.tag = prog.tag.clone();
            ev.lim = -1;
            ev.sent = sentinel_v();
            ev.salign = bumpalo::__verif::sentinel().1 as i64;
            rec::begin();
            let r = catch_unwind(AssertUnwindSafe(|| match (cap, fallible) {
                (None, _) => Ok(Bump::<M>::with_min_align()),
                (Some(c), true) => Bump::<M>::try_with_min_align_and_capacity(*c).map_err(|_| ()),
                (Some(c), false) => Ok(Bump::<M>::with_min_align_and_capacity(*c)),
            }));
            let ga = rec::end();
            rec::clear_panicking();
            let msg = rec::take_panic_msg();
            ev.res = match &r {
                Ok(Ok(_)) => "ok",
                Ok(Err(())) => "err",
                Err(_) => "panic",
            }
            .to_string();
            if r.is_err() {
                ev.msg = msg.chars().take(160).collect();
            }
            for g in &ga {
                let k = if g.kind == Kind::Alloc { 1 } else { 2 };
                ev.ga.push([k, g.size as i64, g.align as i64, if g.vaddr == usize::MAX { -1 } else { g.vaddr as i64 }, g.ok as i64]);
            }
            // dropping whatever was built happens outside the recording; frees of region
            // memory are no-ops, so a constructed arena simply goes away
            drop(r);
            out.push(ev);
        }
    }
    out
}

// ------------------------------------------------------------ several arenas / threads

/// Several arenas, each with its own operation list, driven either interleaved on one
/// thread (all `threads` entries 0, `schedule` gives the order) or by one thread per
/// distinct entry of `threads`, concurrently.
#[derive(Serialize, Deserialize, Clone, Debug)]
pub struct MultiProgram {
    pub ma: usize,
    pub arenas: Vec<Vec<Op>>,
    pub threads: Vec<usize>,
    pub schedule: Vec<usize>,
    #[serde(default)]
    pub tag: String,
}

/// One line of the synchronisation log that ThreadsTrace.tla validates.
#[derive(Serialize, Clone, Debug, Default)]
pub struct SyncEvent {
    pub p: usize,
    pub k: String, // begin | spawn | join | op
    pub th: usize,
    pub c: usize,  // spawn/join: the other thread
    pub ar: usize,
    pub i: usize,
    pub op: String,
    pub stores: Vec<[i64; 3]>,
}

struct ArenaCtx<const M: usize> {
    st: St<M>,
    sh: Shared,
    next: usize,
    fault: (Fault, usize),
}

fn multi_step<const M: usize>(ctx: &mut ArenaCtx<M>, ops: &[Op], seq: &mut usize, ar: usize) {
    // install this arena's bookkeeping (and its own fault policy), run one op, take it back
    SH.with(|s| std::mem::swap(&mut *s.borrow_mut(), &mut ctx.sh));
    rec::set_fault_state(ctx.fault);
    let before = ctx.st.out.len();
    if ctx.next < ops.len() {
        step(&mut ctx.st, &ops[ctx.next]);
        ctx.next += 1;
    } else {
        step(&mut ctx.st, &Op::Drop);
        ctx.next += 1;
    }
    for e in ctx.st.out[before..].iter_mut() {
        e.ar = ar;
        e.seq = *seq;
        *seq += 1;
    }
    ctx.fault = rec::get_fault_state();
    rec::set_fault(Fault::None);
    SH.with(|s| std::mem::swap(&mut *s.borrow_mut(), &mut ctx.sh));
}

fn new_ctx<const M: usize>(pidx: usize, ar: usize, th: usize, tag: &str) -> ArenaCtx<M> {
    let mut sh = Shared::default();
    sh.seed = 0x9999 ^ ((pidx * 31 + ar) as u64);
    ArenaCtx {
        st: St::<M> { bump: None, gablocks: Vec::new(), last_layout: None, prog: pidx, step: 0, th, out: Vec::new(), tag: tag.to_string() },
        sh,
        next: 0,
        fault: (Fault::None, 0),
    }
}

fn run_multi_m<const M: usize>(pidx: usize, mp: &MultiProgram) -> (Vec<Event>, Vec<SyncEvent>) {
    rec::reset_slice();
    rec::set_placement(Placement::Minimal);
    let n = mp.arenas.len();
    let threaded = mp.threads.iter().any(|&t| t != 0);
    let mut sync: Vec<SyncEvent> = vec![SyncEvent { p: pidx, k: "begin".into(), ..Default::default() }];
    let mut per_arena: Vec<Vec<Event>> = Vec::new();
    if !threaded {
        let mut ctxs: Vec<ArenaCtx<M>> = (0..n).map(|a| new_ctx::<M>(pidx, a, 0, &mp.tag)).collect();
        let mut seq = 0usize;
        for &a in &mp.schedule {
            if a < n && ctxs[a].next <= mp.arenas[a].len() {
                multi_step(&mut ctxs[a], &mp.arenas[a], &mut seq, a);
            }
        }
        // finish whatever the schedule left over, arena by arena, and drop
        for a in 0..n {
            while ctxs[a].next <= mp.arenas[a].len() {
                multi_step(&mut ctxs[a], &mp.arenas[a], &mut seq, a);
            }
        }
        for c in ctxs {
            per_arena.push(c.st.out.clone());
        }
    } else {
        let mut tids: Vec<usize> = mp.threads.clone();
        tids.sort();
        tids.dedup();
        for &t in &tids {
            sync.push(SyncEvent { p: pidx, k: "spawn".into(), th: 0, c: t, ..Default::default() });
        }
        let results: Vec<Vec<(usize, Vec<Event>)>> = std::thread::scope(|sc| {
            let mut hs = Vec::new();
            for &t in &tids {
                let mine: Vec<usize> = (0..n).filter(|&a| mp.threads[a] == t).collect();
                let mp = mp;
                hs.push(sc.spawn(move || {
                    rec::set_slice(t.min(rec::MAX_THREADS));
                    let mut ctxs: Vec<(usize, ArenaCtx<M>)> = mine.iter().map(|&a| (a, new_ctx::<M>(pidx, a, t, &mp.tag))).collect();
                    let mut seq = 0usize;
                    // round-robin over this thread's arenas
                    let mut progress = true;
                    while progress {
                        progress = false;
                        for (a, c) in ctxs.iter_mut() {
                            if c.next <= mp.arenas[*a].len() {
                                multi_step(c, &mp.arenas[*a], &mut seq, *a);
                                progress = true;
                            }
                        }
                    }
                    ctxs.into_iter().map(|(a, c)| (a, c.st.out.clone())).collect::<Vec<_>>()
                }));
            }
            hs.into_iter().map(|h| h.join().unwrap()).collect()
        });
        let mut slots: Vec<Vec<Event>> = vec![Vec::new(); n];
        for r in results {
            for (a, evs) in r {
                slots[a] = evs;
            }
        }
        per_arena = slots;
        for &t in &tids {
            sync.push(SyncEvent { p: pidx, k: "join".into(), th: 0, c: t, ..Default::default() });
        }
    }
    // sync log: every call with its footer stores
    let mut all: Vec<&Event> = per_arena.iter().flatten().collect();
    if threaded {
        // thread by thread in program order; threads are concurrent between spawn and join
        all.sort_by_key(|e| (e.th, e.seq));
        let joins: Vec<SyncEvent> = sync.iter().filter(|s| s.k == "join").cloned().collect();
        sync.retain(|s| s.k != "join");
        for e in all {
            sync.push(SyncEvent { p: pidx, k: "op".into(), th: e.th, c: 0, ar: e.ar, i: e.i, op: e.op.clone(), stores: e.stores.clone() });
        }
        sync.extend(joins);
    } else {
        // one driving thread; an OnThread section hands the arena to a helper thread and joins it
        // (thread::scope): spawn / join edges around every maximal run of helper-thread calls
        all.sort_by_key(|e| e.seq);
        let mut cur = 0usize;
        for e in all {
            if e.th != cur {
                if cur != 0 {
                    sync.push(SyncEvent { p: pidx, k: "join".into(), th: 0, c: cur, ..Default::default() });
                }
                if e.th != 0 {
                    sync.push(SyncEvent { p: pidx, k: "spawn".into(), th: 0, c: e.th, ..Default::default() });
                }
                cur = e.th;
            }
            sync.push(SyncEvent { p: pidx, k: "op".into(), th: e.th, c: 0, ar: e.ar, i: e.i, op: e.op.clone(), stores: e.stores.clone() });
        }
        if cur != 0 {
            sync.push(SyncEvent { p: pidx, k: "join".into(), th: 0, c: cur, ..Default::default() });
        }
    }
    let mut out = Vec::new();
    for evs in per_arena {
        out.extend(evs);
    }
    rec::set_fault(Fault::None);
    (out, sync)
}

pub fn run_multi(pidx: usize, mp: &MultiProgram) -> (Vec<Event>, Vec<SyncEvent>) {
    match mp.ma {
        1 => run_multi_m::<1>(pidx, mp),
        2 => run_multi_m::<2>(pidx, mp),
        4 => run_multi_m::<4>(pidx, mp),
        8 => run_multi_m::<8>(pidx, mp),
        _ => run_multi_m::<16>(pidx, mp),
    }
}

/// Each arena's program of `mp` executed alone (same driver, same bookkeeping seeds): the reference
/// against which its behaviour inside the multi-arena run is compared (Isolation.tla).
pub fn run_solo(pidx: usize, mp: &MultiProgram) -> Vec<Vec<Event>> {
    let mut out = Vec::new();
    for (a, ops) in mp.arenas.iter().enumerate() {
        let one = MultiProgram { ma: mp.ma, arenas: vec![ops.clone()], threads: vec![0], schedule: vec![], tag: mp.tag.clone() };
        let (mut evs, _) = run_multi(pidx, &one);
        for e in evs.iter_mut() {
            e.ar = a;
        }
        out.push(evs);
    }
    out
}

/// Placement-independent projection of an event: what must not depend on other arenas.
#[derive(Serialize, Clone, Debug, Default, PartialEq)]
pub struct IsoEvent {
    pub p: usize,
    pub ar: usize,
    pub i: usize,
    pub solo: u8,
    pub op: String,
    pub res: String,
    pub rel: i64,               // returned address relative to the start of the chunk it lies in (-1: none)
    pub reqs: Vec<[i64; 3]>,    // global allocator requests: size, align, granted
    pub chunks: Vec<[i64; 2]>,  // per chunk: usable size, bytes allocated
    pub ab: i64,
    pub abm: i64,
    pub cap: i64,
    pub lim: i64,
    pub newrel: Vec<[i64; 3]>,  // blocks born: offset in chunk, size, align
    pub addrdep: u8,            // this arena has made a request aligned above the chunk alignment
}

pub fn iso_of(e: &Event, solo: bool) -> IsoEvent {
    let rel_of = |addr: i64| -> i64 {
        if addr <= 0 {
            return -1;
        }
        for c in &e.chunks {
            if c[0] <= addr && addr <= c[1] {
                return addr - c[0];
            }
        }
        if (addr - e.sent).abs() < 4096 {
            return 1_000_000 + (addr - e.sent);
        }
        -2
    };
    IsoEvent {
        p: e.p,
        ar: e.ar,
        i: e.i,
        solo: solo as u8,
        op: e.op.clone(),
        res: e.res.clone(),
        rel: rel_of(e.addr),
        reqs: e.ga.iter().map(|g| [g[1], g[2], g[4]]).collect(),
        chunks: e.chunks.iter().map(|c| [c[1] - c[0], c[1] - c[2]]).collect(),
        ab: e.ab,
        abm: e.abm,
        cap: e.cap,
        lim: e.lim,
        newrel: e.new.iter().map(|n| [rel_of(n[1]), n[2], n[3]]).collect(),
        addrdep: 0,
    }
}

pub fn init() {
    rec::set_slice(0);
    rec::install_panic_hook();
    crate::sentguard::install();
    bumpalo::__verif::set_sink(Some(store_sink));
}

pub fn run_program(pidx: usize, prog: &Program) -> Vec<Event> {
    match prog.ma {
        1 => run_m::<1>(pidx, prog),
        2 => run_m::<2>(pidx, prog),
        4 => run_m::<4>(pidx, prog),
        8 => run_m::<8>(pidx, prog),
        16 => run_m::<16>(pidx, prog),
        // invalid minimum alignments: the constructor must refuse them
        0 => run_ctor_only::<0>(pidx, prog),
        3 => run_ctor_only::<3>(pidx, prog),
        5 => run_ctor_only::<5>(pidx, prog),
        6 => run_ctor_only::<6>(pidx, prog),
        7 => run_ctor_only::<7>(pidx, prog),
        12 => run_ctor_only::<12>(pidx, prog),
        24 => run_ctor_only::<24>(pidx, prog),
        32 => run_ctor_only::<32>(pidx, prog),
        64 => run_ctor_only::<64>(pidx, prog),
        _ => Vec::new(),
    }
}
