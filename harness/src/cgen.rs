//! Program generators for the collections driver.
use crate::coll::{COp, CProgram, Rg};
use rand::rngs::StdRng;
use rand::{Rng, SeedableRng};

fn rg(sk: u8, s: i64, ek: u8, e: i64) -> Rg {
    Rg { sk, s, ek, e }
}

/// every range form over indices -1(=usize::MAX), 0..=len+1
pub fn ranges(len: i64) -> Vec<Rg> {
    let mut idx: Vec<i64> = (0..=len + 1).collect();
    idx.push(-1);
    let mut out = vec![rg(0, 0, 0, 0)];
    for &e in &idx {
        out.push(rg(0, 0, 1, e));
        out.push(rg(0, 0, 2, e));
    }
    for &s in &idx {
        out.push(rg(1, s, 0, 0));
        out.push(rg(2, s, 0, 0));
        for &e in &idx {
            out.push(rg(1, s, 2, e));
            if s == 0 || e == len || s == e || s == -1 || e == -1 || e + 1 == s {
                out.push(rg(1, s, 1, e));
                out.push(rg(2, s, 2, e));
                out.push(rg(2, s, 1, e));
            }
        }
    }
    out
}

/// all single operations with all index/range arguments on a vector of length `len`
pub fn ops_for_len(len: i64) -> Vec<COp> {
    use COp::*;
    let v = 0;
    let mut out = vec![
        Push { v, val: 7 },
        Pop { v },
        Clear { v },
        Dedup { v },
        DedupByKey { v, m: 2 },
        DedupByKey { v, m: 1 },
        DedupBy { v },
        Retain { v, m: 2 },
        Retain { v, m: 1 },
        Retain { v, m: 100 },
        DrainFilter { v, m: 2, take: -1 },
        DrainFilter { v, m: 2, take: 1 },
        DrainFilter { v, m: 1, take: 0 },
        DrainFilter { v, m: 3, take: 2 },
        ShrinkToFit { v },
        CloneVec { v, w: 1 },
        IntoBumpSlice { v, mutable: false },
        IntoBumpSlice { v, mutable: true },
        IntoBoxedSlice { v, b: 0, via_from: false },
        IntoBoxedSlice { v, b: 0, via_from: true },
        VecViews { v, w: 1 },
        VecViews { v: 1, w: 0 },
        VecViews { v, w: 0 },
        Extend { v, vals: vec![5, 6] },
        Extend { v, vals: vec![] },
        ExtendFromSlice { v, vals: vec![8, 8, 9] },
        Append { v, w: 1 },
        DropVec { v },
        FromIter { v, vals: vec![1, 2, 2, 3] },
    ];
    let mut idx: Vec<i64> = (0..=len + 2).collect();
    idx.push(-1);
    for &i in &idx {
        out.push(Insert { v, i, val: 9 });
        out.push(Remove { v, i });
        out.push(SwapRemove { v, i });
        out.push(Truncate { v, n: i });
        out.push(SplitOff { v, at: i, w: 1 });
        out.push(Get { v, i });
        if i >= 0 {
            out.push(Resize { v, n: i, val: 4 });
            out.push(Reserve { v, n: i, exact: false, fallible: false });
            out.push(Reserve { v, n: i, exact: true, fallible: true });
        }
    }
    out.push(Reserve { v, n: -1, exact: false, fallible: true });
    out.push(Reserve { v, n: -1, exact: true, fallible: true });
    for r in ranges(len) {
        out.push(Drain { v, r, front: 0, back: 0, forget: false });
        out.push(Drain { v, r, front: 1, back: 1, forget: false });
        out.push(Drain { v, r, front: 1, back: 0, forget: true });
        out.push(Splice { v, r, vals: vec![], take: 0, inexact: false });
        out.push(Splice { v, r, vals: vec![11], take: 1, inexact: true });
        out.push(Splice { v, r, vals: vec![11, 12, 13], take: 0, inexact: true });
    }
    for f in 0..=2usize {
        for b in 0..=2usize {
            out.push(IntoIter { v, front: f, back: b });
        }
    }
    for how in 0..=6u8 {
        for n in [0usize, 1, (len.max(0) as usize), (len.max(0) as usize) + 2] {
            out.push(IntoIterVia { v, how, n });
        }
    }
    out
}

fn base_vec(len: i64) -> Vec<COp> {
    // values chosen so that dedup / retain / dedup_by_key have something to do
    let vals: Vec<i64> = [2, 2, 3, 4, 4, 6].iter().cloned().take(len as usize).collect();
    let vals: Vec<i64> = if len >= 3 && len % 2 == 1 { vec![4, 2, 3, 3, 6, 5].into_iter().take(len as usize).collect() } else { vals };
    // (a box in slot 1 so that the box operations of the alphabet have something to act on)
    vec![COp::NewVec { v: 1, cap: 2 }, COp::Push { v: 1, val: 50 }, COp::BoxNew { b: 1, val: 60 }, COp::FromIter { v: 0, vals }]
}

/// length-1 programs: every op with every argument on vectors of length 0..=maxlen;
/// length-2 programs: every pair from a reduced alphabet
pub fn single(maxlen: i64) -> Vec<CProgram> {
    let mut out = Vec::new();
    for len in 0..=maxlen {
        for op in ops_for_len(len) {
            let mut ops = base_vec(len);
            ops.push(COp::Canary { size: 24 });
            ops.push(op);
            ops.push(COp::Push { v: 0, val: 1 });
            out.push(CProgram { ops, tag: "single".into() });
        }
    }
    // a boxed slice made from a vector with spare capacity that is the arena's latest allocation, then more
    // allocations: the box must keep pointing at its elements
    for len in 1..=maxlen.max(1) {
        for extra in [1i64, 4, 10] {
            for via_from in [false, true] {
                let mut ops = base_vec(len);
                ops.push(COp::Reserve { v: 0, n: extra + len, exact: true, fallible: false });
                ops.push(COp::IntoBoxedSlice { v: 0, b: 0, via_from });
                ops.push(COp::FromIter { v: 2, vals: vec![7, 7, 7, 7, 7, 7] });
                ops.push(COp::BoxNew { b: 1, val: 9 });
                ops.push(COp::Canary { size: 64 });
                ops.push(COp::BoxRead { b: 0 });
                out.push(CProgram { ops, tag: "single".into() });
            }
        }
    }
    // comparisons / hashing / formatting of two vectors against the same on their slices
    let vs: [&[i64]; 7] = [&[], &[2], &[3], &[2, 2], &[2, 3], &[2, 2, 3], &[1, 9, 9, 9]];
    for a in vs.iter() {
        for b in vs.iter() {
            let ops = vec![COp::FromIter { v: 0, vals: a.to_vec() }, COp::FromIter { v: 1, vals: b.to_vec() }, COp::VecViews { v: 0, w: 1 },
                           COp::Push { v: 0, val: 1 }, COp::VecViews { v: 1, w: 0 }];
            out.push(CProgram { ops, tag: "single".into() });
        }
    }
    out
}

pub fn small_alphabet(len: i64) -> Vec<COp> {
    use COp::*;
    let v = 0;
    vec![
        Push { v, val: 7 },
        Pop { v },
        Insert { v, i: 1, val: 9 },
        Insert { v, i: len + 1, val: 9 },
        Remove { v, i: 0 },
        Remove { v, i: len },
        SwapRemove { v, i: 0 },
        Truncate { v, n: 1 },
        Resize { v, n: len + 2, val: 4 },
        Resize { v, n: 1, val: 4 },
        Extend { v, vals: vec![5, 6] },
        ExtendFromSlice { v, vals: vec![8, 8] },
        Append { v, w: 1 },
        SplitOff { v, at: 1, w: 1 },
        Drain { v, r: rg(1, 1, 2, len), front: 1, back: 0, forget: false },
        Drain { v, r: rg(0, 0, 1, -1), front: 0, back: 0, forget: false },
        Drain { v, r: rg(0, 0, 0, 0), front: 0, back: 1, forget: true },
        Splice { v, r: rg(1, 1, 2, 2), vals: vec![11, 12], take: 0, inexact: false },
        Retain { v, m: 2 },
        DrainFilter { v, m: 2, take: 1 },
        Dedup { v },
        DedupByKey { v, m: 2 },
        DedupBy { v },
        Reserve { v, n: 10, exact: false, fallible: false },
        Reserve { v, n: 2, exact: true, fallible: false },
        Reserve { v, n: 1, exact: true, fallible: true },
        Splice { v, r: rg(1, 1, 2, 2), vals: vec![11, 12, 13, 14], take: 0, inexact: true },
        Splice { v, r: rg(1, 0, 2, 1), vals: vec![21, 22, 23], take: 1, inexact: false },
        Canary { size: 16 },
        ShrinkToFit { v },
        CloneVec { v, w: 1 },
        IntoIter { v, front: 1, back: 1 },
        IntoBoxedSlice { v, b: 0, via_from: false },
        BoxNew { b: 1, val: 33 },
        BoxIntoInner { b: 1 },
        BoxLeak { b: 1 },
        BoxRawRoundTrip { b: 1 },
        BoxFromIter { b: 2, vals: vec![1, 2, 3] },
        BoxDrop { b: 1 },
        BoxRead { b: 1 },
        BoxForward { kind: 0, a: 3, b: 5 },
        BoxForward { kind: 0, a: 5, b: 5 },
        BoxForward { kind: 0, a: 9, b: 2 },
        BoxForward { kind: 1, a: 4, b: 1 },
        BoxForward { kind: 2, a: 7, b: 300 },
        BoxForward { kind: 3, a: 42, b: 0 },
        BoxForward { kind: 4, a: 2, b: 99 },
        BoxForward { kind: 4, a: 0, b: 98 },
        BoxForward { kind: 5, a: 6, b: 8 },
        BoxDowncast { b: 1, matching: true, send: false },
        BoxDowncast { b: 1, matching: false, send: false },
        BoxDowncast { b: 1, matching: true, send: true },
        BoxDowncast { b: 1, matching: false, send: true },
        BoxArray { b: 2, vals: vec![4, 5, 6], back: true },
        BoxArray { b: 2, vals: vec![7, 8, 9], back: false },
        DropHeld,
        Canary { size: 100 },
        DropVec { v },
        FromIter { v, vals: vec![1, 2, 2, 3] },
    ]
}

pub fn pairs(len: i64, stride: usize) -> Vec<CProgram> {
    let a = small_alphabet(len);
    let mut out = Vec::new();
    let mut k = 0;
    for x in &a {
        for y in &a {
            k += 1;
            if k % stride != 0 {
                continue;
            }
            let mut ops = base_vec(len);
            ops.push(x.clone());
            ops.push(y.clone());
            out.push(CProgram { ops, tag: "pairs".into() });
        }
    }
    out
}

/// panic-point enumerator: every callback-calling operation, every callback index
pub fn panics(maxlen: i64) -> Vec<CProgram> {
    use COp::*;
    let v = 0;
    let mut out = Vec::new();
    for len in 1..=maxlen {
        let cands = vec![
            Retain { v, m: 2 },
            Retain { v, m: 3 },
            DrainFilter { v, m: 2, take: -1 },
            DrainFilter { v, m: 2, take: 1 },
            DrainFilter { v, m: 3, take: 0 },
            DrainFilter { v, m: 4, take: -1 },
            Dedup { v },
            DedupByKey { v, m: 2 },
            DedupBy { v },
            Resize { v, n: len + 3, val: 4 },
            Resize { v, n: 0, val: 4 },
            Extend { v, vals: vec![5, 6, 7] },
            ExtendFromSlice { v, vals: vec![8, 8, 9] },
            CloneVec { v, w: 1 },
            Splice { v, r: rg(1, 0, 2, 1), vals: vec![11, 12, 13], take: 0, inexact: true },
            Splice { v, r: rg(0, 0, 0, 0), vals: vec![11], take: 1, inexact: false },
            FromIter { v: 2, vals: vec![1, 2, 3] },
            Truncate { v, n: 0 },
            Truncate { v, n: 1 },
            Clear { v },
            DropVec { v },
            IntoIter { v, front: 1, back: 0 },
            Drain { v, r: rg(0, 0, 0, 0), front: 1, back: 0, forget: false },
            Drain { v, r: rg(1, 1, 0, 0), front: 0, back: 0, forget: false },
            BoxDrop { b: 1 },
            IntoBoxedSlice { v, b: 0, via_from: false },
        ];
        for c in cands {
            for n in 0..(2 * len + 6) {
                for follow in 0..2 {
                    let mut ops = base_vec(len);
                    ops.push(BoxNew { b: 1, val: 77 });
                    ops.push(PanicAt { n });
                    ops.push(c.clone());
                    ops.push(PanicAt { n: -1 });
                    if follow == 0 {
                        ops.push(Push { v, val: 1 });
                        ops.push(Pop { v });
                    }
                    out.push(CProgram { ops, tag: "panics".into() });
                }
            }
        }
    }
    out
}

pub fn random(count: usize, len: usize, seed: u64, with_panics: bool) -> Vec<CProgram> {
    let mut rng = StdRng::seed_from_u64(seed ^ 0xC011);
    let mut out = Vec::new();
    for _ in 0..count {
        let mut ops = vec![COp::NewVec { v: 0, cap: -1 }, COp::NewVec { v: 1, cap: 3 }];
        for _ in 0..len {
            let l = rng.gen_range(0..6);
            let a = small_alphabet(l);
            let mut op = if rng.gen_bool(0.5) {
                a[rng.gen_range(0..a.len())].clone()
            } else {
                let o = ops_for_len(l);
                o[rng.gen_range(0..o.len())].clone()
            };
            // spread over two vectors
            if rng.gen_bool(0.3) {
                op = swap_vec(op);
            }
            if with_panics && rng.gen_bool(0.15) {
                ops.push(COp::PanicAt { n: rng.gen_range(0..6) });
                ops.push(op);
                ops.push(COp::PanicAt { n: -1 });
            } else {
                ops.push(op);
            }
        }
        out.push(CProgram { ops, tag: if with_panics { "random-panics".into() } else { "random".into() } });
    }
    out
}

fn swap_vec(op: COp) -> COp {
    let mut j = serde_json::to_value(&op).unwrap();
    if let Some(o) = j.as_object_mut() {
        let v = o.get("v").and_then(|x| x.as_u64());
        let w = o.get("w").and_then(|x| x.as_u64());
        if let Some(v) = v {
            o.insert("v".into(), serde_json::json!(1 - v.min(1)));
        }
        if let Some(w) = w {
            o.insert("w".into(), serde_json::json!(1 - w.min(1)));
        }
    }
    serde_json::from_value(j).unwrap_or(op)
}

/// growth policy (C18): a buffer with capacity c holding few elements is extended past c in one call
pub fn growth() -> Vec<CProgram> {
    use COp::*;
    let v = 0;
    let mut out = Vec::new();
    for c in [4i64, 8, 16, 33] {
        for keep in [0i64, 1, c / 2 - 1, c / 2, c - 1] {
            for extra in [1i64, 2, c / 2, c] {
                let k = (c - keep + extra) as usize; // exceeds the capacity by `extra`
                let vals: Vec<i64> = (0..k as i64).collect();
                let fill: Vec<i64> = (0..c).collect();
                for how in 0..5 {
                    let mut ops = vec![NewVec { v, cap: c }, Extend { v, vals: fill.clone() }, Truncate { v, n: keep }];
                    ops.push(match how {
                        0 => Extend { v, vals: vals.clone() },
                        1 => ExtendFromSlice { v, vals: vals.clone() },
                        2 => Reserve { v, n: k as i64, exact: false, fallible: false },
                        3 => Reserve { v, n: k as i64, exact: false, fallible: true },
                        _ => Resize { v, n: keep + k as i64, val: 7 },
                    });
                    ops.push(Push { v, val: 1 });
                    // clear-and-refill rounds: the number of moves must stay logarithmic
                    for round in 0..6i64 {
                        ops.push(Clear { v });
                        ops.push(Extend { v, vals: (0..(c + extra + round)).collect() });
                    }
                    out.push(CProgram { ops, tag: "growth".into() });
                }
            }
        }
    }
    out
}

pub fn by_name(name: &str, tier: &str, seed: u64) -> Vec<CProgram> {
    let thorough = tier == "thorough";
    match name {
        "single" => single(if thorough { 4 } else { 3 }),
        "pairs" => {
            let mut v = pairs(3, if thorough { 1 } else { 4 });
            if thorough {
                v.extend(pairs(1, 1));
            }
            v
        }
        "panics" => panics(if thorough { 4 } else { 3 }),
        "growth" => growth(),
        "random" => random(if thorough { 3000 } else { 300 }, 25, seed, false),
        "random-panics" => random(if thorough { 3000 } else { 300 }, 25, seed, true),
        _ => panic!("unknown generator {name}"),
    }
}
