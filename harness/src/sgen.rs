//! Program generators for the string driver.
use crate::cgen::ranges;
use crate::coll::Rg;
use crate::strs::{SOp, SProgram};
use rand::rngs::StdRng;
use rand::{Rng, SeedableRng};

pub const ALPHA: [u32; 4] = [0x61, 0xE9, 0x20AC, 0x1F600]; // a(1) é(2) €(3) 😀(4)

fn width(c: u32) -> i64 {
    if c < 0x80 { 1 } else if c < 0x800 { 2 } else if c < 0x10000 { 3 } else { 4 }
}

fn texts(maxchars: usize, thin: usize) -> Vec<Vec<u32>> {
    let mut out: Vec<Vec<u32>> = vec![vec![]];
    let mut cur: Vec<Vec<u32>> = vec![vec![]];
    for _ in 0..maxchars {
        let mut next = Vec::new();
        for t in &cur {
            for &c in &ALPHA {
                let mut u = t.clone();
                u.push(c);
                next.push(u);
            }
        }
        out.extend(next.iter().cloned());
        cur = next;
    }
    out.into_iter().enumerate().filter(|(i, t)| t.len() <= 2 || i % thin == 0).map(|(_, t)| t).collect()
}

fn ops_for(text: &[u32]) -> Vec<SOp> {
    use SOp::*;
    let blen: i64 = text.iter().map(|&c| width(c)).sum();
    let mut idx: Vec<i64> = (0..=blen + 1).collect();
    idx.push(-1);
    let mut out = vec![Pop, Clear, Retain { m: 2 }, Retain { m: 3 }, Retain { m: 1 }, CloneStr, ShrinkToFit, IntoBumpStr,
        Push { c: 0x20AC }, PushStr { s: vec![0xE9, 0x61] }, Extend { s: vec![0x1F600, 0x61] }, Write { s: vec![0x61, 0x20AC] },
        Reserve { n: 5, exact: false }, Reserve { n: 0, exact: true },
        Add { s: vec![0xE9, 0x61], assign: false }, Add { s: vec![0x20AC], assign: true }, IntoBytesRoundTrip,
        FromIter { s: text.to_vec() }, FromUtf8Unchecked { s: text.to_vec() }, AsMutVecPush { c: 0x7A },
        Views { o: text.to_vec() }, Views { o: vec![0x61, 0xE9] }, Views { o: vec![] },
        AsciiUpper { via: 0, r: Rg { sk: 0, s: 0, ek: 0, e: 0 } }, AsciiUpper { via: 1, r: Rg { sk: 0, s: 0, ek: 0, e: 0 } },
        AsciiUpper { via: 2, r: Rg { sk: 0, s: 0, ek: 0, e: 0 } }];
    // near misses of the text: other case, one char more, one char fewer, last char replaced
    let upper: Vec<u32> = text.iter().map(|&c| if (0x61..=0x7a).contains(&c) { c - 32 } else { c }).collect();
    let mut more = text.to_vec();
    more.push(0x61);
    let fewer: Vec<u32> = text.iter().cloned().take(text.len().saturating_sub(1)).collect();
    let mut other = fewer.clone();
    other.push(0xE8);
    for o in [upper, more, fewer, other] {
        out.push(Views { o });
    }
    for kind in 0..5u8 {
        out.push(ExtendStrs { parts: vec![vec![0xE9, 0x61], vec![], vec![0x1F600]], kind });
    }
    for &i in &idx {
        out.push(Insert { i, c: 0xE9 });
        out.push(InsertStr { i, s: vec![0x61, 0x1F600] });
        out.push(Remove { i });
        out.push(Truncate { n: i });
        out.push(SplitOff { at: i });
    }
    for r in ranges(blen) {
        out.push(Drain { r, take: 0, forget: false, back: 0 });
        out.push(Drain { r, take: 1, forget: false, back: 1 });
        out.push(ReplaceRange { r, s: vec![0x20AC] });
        out.push(ReplaceRange { r, s: vec![] });
        out.push(Slice { r });
        out.push(AsciiUpper { via: 3, r });
    }
    out.push(Drain { r: Rg { sk: 0, s: 0, ek: 0, e: 0 }, take: 1, forget: true, back: 0 });
    out
}

pub fn sops(maxchars: usize, thin: usize) -> Vec<SProgram> {
    let mut out = Vec::new();
    for t in texts(maxchars, thin) {
        let all = ops_for(&t);
        // chunks of 40 operations per program, each on a freshly built string
        for ch in all.chunks(40) {
            let mut ops = Vec::new();
            for op in ch {
                ops.push(SOp::FromStr { s: t.clone() });
                ops.push(op.clone());
                ops.push(SOp::Push { c: 0x61 });
            }
            out.push(SProgram { ops, tag: "sops".into() });
        }
    }
    out
}

pub fn spanics(maxchars: usize) -> Vec<SProgram> {
    let mut out = Vec::new();
    for t in texts(maxchars, 1) {
        if t.is_empty() {
            continue;
        }
        for m in [2u32, 3, 5, 97] {
            for n in 0..t.len() as i64 {
                let ops = vec![SOp::FromStr { s: t.clone() }, SOp::PanicAt { n }, SOp::Retain { m }, SOp::PanicAt { n: -1 },
                    SOp::Push { c: 0x61 }, SOp::Pop];
                out.push(SProgram { ops, tag: "spanics".into() });
            }
        }
        for n in 0..3 {
            let ops = vec![SOp::FromStr { s: t.clone() }, SOp::PanicAt { n }, SOp::Extend { s: vec![0xE9, 0x1F600, 0x61] }, SOp::PanicAt { n: -1 }, SOp::Pop];
            out.push(SProgram { ops, tag: "spanics".into() });
        }
    }
    out
}

/// two representatives of each of the 14 byte classes of the UTF-8 well-formedness table
pub const BYTE_REPS: [u8; 28] = [0x00, 0x7F, 0x80, 0x8F, 0x90, 0x9F, 0xA0, 0xBF, 0xC0, 0xC1, 0xC2, 0xDF, 0xE0, 0xE0, 0xE1, 0xEC,
    0xED, 0xED, 0xEE, 0xEF, 0xF0, 0xF0, 0xF1, 0xF3, 0xF4, 0xF4, 0xF5, 0xFF];

fn byte_strings(maxlen: usize, reps: &[u8]) -> Vec<Vec<u8>> {
    let mut out: Vec<Vec<u8>> = vec![vec![]];
    let mut cur: Vec<Vec<u8>> = vec![vec![]];
    for _ in 0..maxlen {
        let mut next = Vec::new();
        for t in &cur {
            for &c in reps {
                let mut u = t.clone();
                u.push(c);
                next.push(u);
            }
        }
        out.extend(next.iter().cloned());
        cur = next;
    }
    out
}

pub fn decoders(thorough: bool, seed: u64) -> Vec<SProgram> {
    let mut inputs: Vec<Vec<u8>> = Vec::new();
    let mut uniq: Vec<u8> = BYTE_REPS.to_vec();
    uniq.dedup();
    let one: Vec<u8> = uniq.iter().cloned().step_by(2).collect();
    inputs.extend(byte_strings(2, &uniq));
    inputs.extend(byte_strings(if thorough { 4 } else { 3 }, &one).into_iter().filter(|b| b.len() >= 3));
    // structured: valid text with one corrupted position, truncations of every multi-byte char
    let valid = "aé€😀z".as_bytes().to_vec();
    for i in 0..valid.len() {
        for &r in &[0x80u8, 0xBF, 0xC0, 0xE0, 0xED, 0xF4, 0xFF, 0x41] {
            let mut v = valid.clone();
            v[i] = r;
            inputs.push(v);
        }
        inputs.push(valid[..i].to_vec());
        inputs.push(valid[i..].to_vec());
    }
    // surrogates and overlongs and > U+10FFFF
    for b in [vec![0xED, 0xA0, 0x80], vec![0xED, 0xBF, 0xBF], vec![0xE0, 0x80, 0x80], vec![0xE0, 0x9F, 0xBF], vec![0xF0, 0x80, 0x80, 0x80],
        vec![0xF0, 0x8F, 0xBF, 0xBF], vec![0xF4, 0x90, 0x80, 0x80], vec![0xF4, 0x8F, 0xBF, 0xBF], vec![0xEF, 0xBF, 0xBD], vec![0xC2, 0x80]] {
        inputs.push(b);
    }
    let mut rng = StdRng::seed_from_u64(seed ^ 0xDEC0);
    for _ in 0..if thorough { 20000 } else { 2000 } {
        let n = rng.gen_range(1..8);
        inputs.push((0..n).map(|_| uniq[rng.gen_range(0..uniq.len())]).collect());
    }
    let mut out = Vec::new();
    for ch in inputs.chunks(50) {
        let mut ops = Vec::new();
        for b in ch {
            ops.push(SOp::FromUtf8 { b: b.clone() });
            ops.push(SOp::FromUtf8Lossy { b: b.clone() });
        }
        out.push(SProgram { ops, tag: "decoders".into() });
    }
    // utf16
    let units: [u16; 9] = [0x41, 0xE9, 0x20AC, 0xD800, 0xDBFF, 0xDC00, 0xDFFF, 0xFFFF, 0xD7FF];
    let mut us: Vec<Vec<u16>> = vec![vec![]];
    let mut cur: Vec<Vec<u16>> = vec![vec![]];
    for _ in 0..if thorough { 4 } else { 3 } {
        let mut next = Vec::new();
        for t in &cur {
            for &c in &units {
                let mut u = t.clone();
                u.push(c);
                next.push(u);
            }
        }
        us.extend(next.iter().cloned());
        cur = next;
    }
    for ch in us.chunks(100) {
        out.push(SProgram { ops: ch.iter().map(|u| SOp::FromUtf16 { u: u.clone() }).collect(), tag: "decoders16".into() });
    }
    out
}

pub fn srandom(count: usize, len: usize, seed: u64) -> Vec<SProgram> {
    let mut rng = StdRng::seed_from_u64(seed ^ 0x5712);
    let mut out = Vec::new();
    for _ in 0..count {
        let mut ops = vec![SOp::New { cap: if rng.gen_bool(0.5) { -1 } else { rng.gen_range(0..20) } }];
        for _ in 0..len {
            let t: Vec<u32> = (0..rng.gen_range(0..4)).map(|_| ALPHA[rng.gen_range(0..4)]).collect();
            let o = ops_for(&t);
            let mut op = o[rng.gen_range(0..o.len())].clone();
            if let SOp::IntoBumpStr = op {
                if rng.gen_bool(0.8) {
                    op = SOp::PushStr { s: t.clone() };
                }
            }
            if rng.gen_bool(0.1) {
                ops.push(SOp::PanicAt { n: rng.gen_range(0..4) });
                ops.push(op);
                ops.push(SOp::PanicAt { n: -1 });
            } else {
                ops.push(op);
            }
            if rng.gen_bool(0.15) {
                ops.push(SOp::PushStr { s: t });
            }
        }
        out.push(SProgram { ops, tag: "srandom".into() });
    }
    out
}

/// growth refused by the arena in the middle of an operation (the arena is capped at what it holds):
/// whatever happens (an out-of-memory panic is legitimate), the string stays valid UTF-8
pub fn snogrow() -> Vec<SProgram> {
    use SOp::*;
    let mut out = Vec::new();
    for lead in 0..4usize {
        for cap in [0i64, 1, 2, 3, 4, 5, 8] {
            for &c in &ALPHA {
                let mut ops = vec![New { cap }];
                for _ in 0..lead {
                    ops.push(Push { c: 0x61 });
                }
                ops.push(ArenaNoGrow { on: true });
                for _ in 0..6 {
                    ops.push(Push { c });
                }
                ops.push(PushStr { s: vec![0xE9, c, 0x61] });
                ops.push(Insert { i: 0, c });
                ops.push(InsertStr { i: 1, s: vec![c, c] });
                ops.push(Extend { s: vec![c, 0x20AC] });
                ops.push(ExtendStrs { parts: vec![vec![c], vec![0x20AC, c]], kind: (lead % 5) as u8 });
                ops.push(Add { s: vec![c, c], assign: true });
                ops.push(Write { s: vec![c, 0xE9] });
                ops.push(ReplaceRange { r: Rg { sk: 1, s: 0, ek: 2, e: 1 }, s: vec![c, c, c] });
                ops.push(ArenaNoGrow { on: false });
                ops.push(Push { c });
                ops.push(Pop);
                out.push(SProgram { ops, tag: "snogrow".into() });
            }
        }
    }
    out
}

pub fn by_name(name: &str, tier: &str, seed: u64) -> Vec<SProgram> {
    let thorough = tier == "thorough";
    match name {
        "sops" => sops(3, if thorough { 1 } else { 16 }),
        "spanics" => spanics(3),
        "snogrow" => snogrow(),
        "decoders" => decoders(thorough, seed),
        "srandom" => srandom(if thorough { 3000 } else { 300 }, 30, seed),
        _ => panic!("unknown generator {name}"),
    }
}
