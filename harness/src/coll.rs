//! Collections driver: runs *programs* over `bumpalo::collections::Vec<Tr>` /
//! `bumpalo::boxed::Box` and, with the same interpreter, over `std::vec::Vec<Tr>` /
//! `std::boxed::Box`, and emits one event per call: arguments, result, contents
//! after the call, elements created and dropped during the call (unique ids).

use crate::rec;
use bumpalo::Bump;
use serde::{Deserialize, Serialize};
use std::cell::RefCell;
use std::ops::Bound;
use std::panic::{catch_unwind, AssertUnwindSafe};

// ---------------------------------------------------------------- tracked elements

#[derive(Default)]
pub struct Ledger {
    pub next_id: i64,
    pub drops: Vec<i64>,
    pub created: Vec<[i64; 2]>,
    pub cb: Vec<i64>,
    pub ticks: i64,
    pub panic_at: i64, // tick number at which the next callback panics; -1 never
    pub panicked: bool,
    pub zcreated: i64,
    pub zdropped: i64,
}

thread_local! {
    pub static LG: RefCell<Ledger> = RefCell::new(Ledger { panic_at: -1, ..Default::default() });
}

/// Every user callback (predicate, key function, Clone, Drop, iterator step,
/// initialiser) calls this; the programmed one panics.
pub fn tick() {
    let p = {
        let _g = rec::pause();
        LG.with(|l| {
            let mut l = l.borrow_mut();
            let t = l.ticks;
            l.ticks += 1;
            if t == l.panic_at && !l.panicked {
                l.panicked = true;
                true
            } else {
                false
            }
        })
    };
    if p {
        panic!("programmed callback panic");
    }
}

#[derive(Debug)]
pub struct Tr {
    pub id: i64,
    pub val: i64,
}

impl Tr {
    pub fn new(val: i64) -> Tr {
        let _g = rec::pause();
        LG.with(|l| {
            let mut l = l.borrow_mut();
            let id = l.next_id;
            l.next_id += 1;
            l.created.push([id, val]);
            Tr { id, val }
        })
    }
}

impl Clone for Tr {
    fn clone(&self) -> Tr {
        tick();
        Tr::new(self.val)
    }
}

impl Drop for Tr {
    fn drop(&mut self) {
        {
            let _g = rec::pause();
            LG.with(|l| l.borrow_mut().drops.push(self.id));
        }
        // a destructor may be the programmed panic point, but never while already unwinding
        if !std::thread::panicking() {
            tick();
        }
    }
}

impl PartialEq for Tr {
    fn eq(&self, o: &Tr) -> bool {
        tick();
        self.val == o.val
    }
}

impl Eq for Tr {}
impl PartialOrd for Tr {
    fn partial_cmp(&self, o: &Tr) -> Option<std::cmp::Ordering> {
        Some(self.val.cmp(&o.val))
    }
}
impl Ord for Tr {
    fn cmp(&self, o: &Tr) -> std::cmp::Ordering {
        self.val.cmp(&o.val)
    }
}
impl std::hash::Hash for Tr {
    fn hash<H: std::hash::Hasher>(&self, h: &mut H) {
        self.val.hash(h)
    }
}
impl std::fmt::Display for Tr {
    fn fmt(&self, f: &mut std::fmt::Formatter) -> std::fmt::Result {
        write!(f, "tr#{}", self.val)
    }
}

/// A future that is ready after `n` polls (for Box<F: Future> forwarding).
pub struct ReadyAfter(pub u32, pub i64);
impl std::future::Future for ReadyAfter {
    type Output = i64;
    fn poll(mut self: std::pin::Pin<&mut Self>, _cx: &mut std::task::Context<'_>) -> std::task::Poll<i64> {
        if self.0 == 0 {
            std::task::Poll::Ready(self.1)
        } else {
            self.0 -= 1;
            std::task::Poll::Pending
        }
    }
}

pub fn noop_waker() -> std::task::Waker {
    use std::task::{RawWaker, RawWakerVTable, Waker};
    fn clone(_: *const ()) -> RawWaker {
        RawWaker::new(std::ptr::null(), &VT)
    }
    fn noop(_: *const ()) {}
    static VT: RawWakerVTable = RawWakerVTable::new(clone, noop, noop, noop);
    unsafe { Waker::from_raw(RawWaker::new(std::ptr::null(), &VT)) }
}

fn same2(sl: &[Tr], want: &[(i64, i64)]) -> bool {
    sl.len() == want.len() && sl.iter().zip(want.iter()).all(|(t, w)| (t.id, t.val) == *w)
}

pub fn hash_of<T: std::hash::Hash + ?Sized>(t: &T) -> u64 {
    use std::hash::Hasher;
    let mut h = std::collections::hash_map::DefaultHasher::new();
    t.hash(&mut h);
    h.finish()
}

/// Zero-sized element with an observable destructor (counted, not identified).
#[derive(Debug)]
pub struct Zt;
impl Zt {
    pub fn new() -> Zt {
        let _g = rec::pause();
        LG.with(|l| l.borrow_mut().zcreated += 1);
        Zt
    }
}
impl Clone for Zt {
    fn clone(&self) -> Zt {
        tick();
        Zt::new()
    }
}
impl Drop for Zt {
    fn drop(&mut self) {
        let _g = rec::pause();
        LG.with(|l| l.borrow_mut().zdropped += 1);
    }
}

// ---------------------------------------------------------------- programs

#[derive(Serialize, Deserialize, Clone, Copy, Debug, PartialEq)]
pub struct Rg {
    pub sk: u8, // 0 unbounded, 1 included, 2 excluded
    pub s: i64, // -1 = usize::MAX
    pub ek: u8,
    pub e: i64,
}

fn ub(x: i64) -> usize {
    if x < 0 {
        usize::MAX
    } else {
        x as usize
    }
}

impl Rg {
    pub fn bounds(&self) -> (Bound<usize>, Bound<usize>) {
        let s = match self.sk {
            0 => Bound::Unbounded,
            1 => Bound::Included(ub(self.s)),
            _ => Bound::Excluded(ub(self.s)),
        };
        let e = match self.ek {
            0 => Bound::Unbounded,
            1 => Bound::Included(ub(self.e)),
            _ => Bound::Excluded(ub(self.e)),
        };
        (s, e)
    }
}

#[derive(Serialize, Deserialize, Clone, Debug, PartialEq)]
#[serde(tag = "op")]
pub enum COp {
    NewVec { v: usize, cap: i64 },
    FromIter { v: usize, vals: Vec<i64> },
    Push { v: usize, val: i64 },
    Pop { v: usize },
    Insert { v: usize, i: i64, val: i64 },
    Remove { v: usize, i: i64 },
    SwapRemove { v: usize, i: i64 },
    Truncate { v: usize, n: i64 },
    Clear { v: usize },
    Resize { v: usize, n: i64, val: i64 },
    ExtendFromSlice { v: usize, vals: Vec<i64> },
    Extend { v: usize, vals: Vec<i64> },
    Append { v: usize, w: usize },
    SplitOff { v: usize, at: i64, w: usize },
    /// drain(range): take `front` items from the front, `back` from the back, then drop (or forget) the Drain
    Drain { v: usize, r: Rg, front: usize, back: usize, forget: bool },
    /// splice(range, vals): take `take` removed items, then drop the Splice
    Splice { v: usize, r: Rg, vals: Vec<i64>, take: usize, #[serde(default)] inexact: bool },
    /// retain(|x| x.val % m != 0)
    Retain { v: usize, m: i64 },
    /// drain_filter(|x| x.val % m == 0): take `take` items by hand (-1: all), then drop the iterator
    DrainFilter { v: usize, m: i64, take: i64 },
    Dedup { v: usize },
    DedupByKey { v: usize, m: i64 },
    /// dedup_by(|a, b| a.val <= b.val): order-sensitive predicate; the arguments are logged
    DedupBy { v: usize },
    Reserve { v: usize, n: i64, exact: bool, fallible: bool },
    ShrinkToFit { v: usize },
    CloneVec { v: usize, w: usize },
    /// into_iter(): take `front`/`back` items, drop the rest with the iterator
    IntoIter { v: usize, front: usize, back: usize },
    /// into_iter() consumed through an adaptor: 0 nth(n), 1 skip(n).next(), 2 step_by(n + 1) to the end, 3 last(),
    /// 4 count(), 5 rev().nth(n), 6 nth(n) twice then next(); what is not returned must be dropped with the iterator
    IntoIterVia { v: usize, how: u8, n: usize },
    IntoBumpSlice { v: usize, #[serde(default)] mutable: bool },
    IntoBoxedSlice { v: usize, b: usize, #[serde(default)] via_from: bool },
    /// every read-only view / comparison (against vector w) / hashing / formatting of the Vec agrees with the same
    /// on its slice; mutable views (as_mut_slice, DerefMut, IndexMut, AsMut, BorrowMut, &mut IntoIterator) reach
    /// the same elements
    VecViews { v: usize, w: usize },
    Get { v: usize, i: i64 },
    DropVec { v: usize },
    BoxNew { b: usize, val: i64 },
    BoxDrop { b: usize },
    BoxIntoInner { b: usize },
    BoxLeak { b: usize },
    BoxRawRoundTrip { b: usize },
    BoxFromIter { b: usize, vals: Vec<i64> },
    BoxRead { b: usize },
    /// forwarding impls of Box to its value; kind 0 comparisons+hash (values a, b), 1 iterator, 2 hasher,
    /// 3 formatting, 4 future, 5 deref/as_ref/borrow/pin
    BoxForward { kind: u8, a: i64, b: i64 },
    /// Box<Tr> -> Box<dyn Any (+ Send)> -> downcast to the matching / a non-matching type
    BoxDowncast { b: usize, matching: bool, send: bool },
    /// Box<[Tr; 3]> -> Box<[Tr]> -> TryFrom back with N = 3 (back = true) or N = 2 (must hand the slice back)
    BoxArray { b: usize, vals: Vec<i64>, back: bool },
    /// drop everything the caller still holds (returned elements)
    DropHeld,
    /// neighbour traffic in the same arena: raw canary block
    Canary { size: usize },
    /// the `n`-th callback from now on panics
    PanicAt { n: i64 },
    ArenaReset,
}

#[derive(Serialize, Deserialize, Clone, Debug)]
pub struct CProgram {
    pub ops: Vec<COp>,
    #[serde(default)]
    pub tag: String,
}

#[derive(Serialize, Clone, Debug, Default)]
pub struct CEvent {
    pub p: usize,
    pub i: usize,
    pub im: String, // "bump" | "std"
    pub op: String,
    pub v: i64,
    pub w: i64,
    pub a: i64,        // first scalar argument (index, n, at, modulus, ...)
    pub b: i64,        // second scalar argument
    pub flag: i64,     // boolean-ish argument
    pub rg: [i64; 4],  // range: sk, s, ek, e
    pub vals: Vec<i64>, // value arguments
    pub res: String,   // ok | panic | err
    pub ret: Vec<[i64; 2]>,   // elements returned to the caller by this call (id, val), in order
    pub retn: i64,     // scalar result (-1 n/a)
    pub after: Vec<[i64; 2]>, // contents of vec v after the call
    pub after2: Vec<[i64; 2]>, // contents of vec w after the call
    pub alive: u8,     // 1 if vec v exists after the call
    pub all: Vec<Vec<[i64; 2]>>,  // contents of every vector slot after the call ([[-1,-1]] = no vector)
    pub bx: Vec<Vec<[i64; 2]>>,   // contents of every box slot after the call ([[-1,-1]] = none)
    pub pp: u8,        // 1 if the programmed callback panic fired during this call
    pub cbargs: Vec<[i64; 2]>, // arguments (ids) of each call of a two-argument callback, in order
    pub ty: String,    // element kind: "T" tracked (ids), "Z" zero-sized (counted), "C" Copy values (no identity)
    pub zc: i64,       // zero-sized elements created during the call
    pub zd: i64,       // zero-sized elements dropped during the call
    pub zr: i64,       // zero-sized elements handed to the caller by the call
    pub zlen0: i64,    // length before the call (Z)
    pub alive2: u8,
    pub len: i64,
    pub cap: i64,
    pub cap0: i64,     // capacity of vec v before the call (-1 if none)
    pub moved: u8,     // 1 if the buffer address changed during this call
    pub created: Vec<[i64; 2]>,
    pub drops: Vec<i64>,
    pub ticks: i64,    // callbacks made during this call
    pub held: Vec<i64>, // ids currently owned by the caller (after the call)
    pub leaked: Vec<i64>, // ids legitimately leaked by this call (into_bump_slice, leak, forget)
    pub canary_ok: u8,
    pub ga: i64,       // global allocator calls during the op
    pub gafree: i64,   // of which frees
    pub ab: i64,       // arena allocated_bytes after the call (bump only)
    pub utf8: u8,
    pub tag: String,
    pub msg: String,
}

pub fn base(op: &str) -> CEvent {
    CEvent { op: op.into(), ty: "T".into(), v: -1, w: -1, a: -1, b: -1, flag: -1, retn: -1, len: -1, cap: -1, cap0: -1, canary_ok: 1, utf8: 1, res: "ok".into(), ..Default::default() }
}

fn ids<'a, I: IntoIterator<Item = &'a Tr>>(it: I) -> Vec<[i64; 2]> {
    it.into_iter().map(|t| [t.id, t.val]).collect()
}

pub struct Canary {
    ptr: usize,
    bytes: Vec<u8>,
}

macro_rules! interp {
    ($modname:ident, $im:expr, $V:ty, $B:ty, $BS:ty, bump = $isbump:expr) => {
        pub mod $modname {
            use super::*;
            #[allow(unused_imports)]
            use bumpalo::collections::Vec as BVec;

            pub struct State<'b> {
                pub bump: &'b Bump,
                pub vecs: Vec<Option<$V>>,
                pub boxes: Vec<Option<$B>>,
                pub bslices: Vec<Option<$BS>>,
                pub held: Vec<Tr>,
                pub canaries: Vec<Canary>,
                pub out: Vec<CEvent>,
                pub p: usize,
                pub tag: String,
            }

            fn is_bump() -> bool {
                $isbump
            }

            impl<'b> State<'b> {
                fn slot(&mut self, v: usize) -> &mut Option<$V> {
                    while self.vecs.len() <= v {
                        self.vecs.push(None);
                    }
                    &mut self.vecs[v]
                }
                fn bslot(&mut self, b: usize) -> &mut Option<$B> {
                    while self.boxes.len() <= b {
                        self.boxes.push(None);
                    }
                    &mut self.boxes[b]
                }
                fn bsslot(&mut self, b: usize) -> &mut Option<$BS> {
                    while self.bslices.len() <= b {
                        self.bslices.push(None);
                    }
                    &mut self.bslices[b]
                }

                /// run one call under catch_unwind and fill in the observable part of the event
                fn call<F: FnOnce(&mut Self, &mut CEvent)>(&mut self, mut ev: CEvent, v: i64, w: i64, f: F) {
                    ev.p = self.p;
                    ev.i = self.out.len();
                    ev.im = $im.into();
                    ev.v = v;
                    ev.w = w;
                    ev.tag = self.tag.clone();
                    let pp0 = LG.with(|l| l.borrow().panicked);
                    let (t0, ptr0) = {
                        let _g = rec::pause();
                        LG.with(|l| {
                            let mut l = l.borrow_mut();
                            l.drops.clear();
                            l.created.clear();
                            l.ticks
                        });
                        let t0 = LG.with(|l| l.borrow().ticks);
                        let ptr0 = if v >= 0 { self.slot(v as usize).as_ref().map(|x| x.as_ptr() as usize) } else { None };
                        if v >= 0 {
                            if let Some(x) = self.slot(v as usize).as_ref() {
                                ev.cap0 = x.capacity().min(i32::MAX as usize) as i64;
                            }
                        }
                        (t0, ptr0)
                    };
                    rec::begin();
                    let r = catch_unwind(AssertUnwindSafe(|| f(self, &mut ev)));
                    let ga = rec::end();
                    rec::clear_panicking();
                    let msg = rec::take_panic_msg();
                    if r.is_err() {
                        ev.res = "panic".into();
                        ev.msg = msg.chars().take(120).collect();
                    }
                    ev.ga = ga.len() as i64;
                    ev.gafree = ga.iter().filter(|g| g.kind == rec::Kind::Free).count() as i64;
                    LG.with(|l| {
                        let l = l.borrow();
                        ev.drops = l.drops.clone();
                        ev.created = l.created.clone();
                        ev.ticks = l.ticks - t0;
                    });
                    if v >= 0 {
                        if let Some(x) = self.slot(v as usize).as_ref() {
                            ev.after = ids(x.iter());
                            ev.alive = 1;
                            ev.len = x.len() as i64;
                            ev.cap = x.capacity().min(i32::MAX as usize) as i64;
                            ev.moved = (ptr0.is_some() && ptr0 != Some(x.as_ptr() as usize)) as u8;
                        }
                    }
                    if w >= 0 {
                        if let Some(x) = self.slot(w as usize).as_ref() {
                            ev.after2 = ids(x.iter());
                            ev.alive2 = 1;
                        }
                    }
                    ev.pp = (LG.with(|l| l.borrow().panicked) && !pp0) as u8;
                    for x in &self.vecs {
                        ev.all.push(match x {
                            Some(x) => ids(x.iter()),
                            None => vec![[-1, -1]],
                        });
                    }
                    let nb = self.boxes.len().max(self.bslices.len());
                    for b in 0..nb {
                        let one = self.boxes.get(b).and_then(|x| x.as_ref());
                        let sl = self.bslices.get(b).and_then(|x| x.as_ref());
                        ev.bx.push(match (one, sl) {
                            (Some(t), _) => vec![[t.id, t.val]],
                            (None, Some(s)) => ids(s.iter()),
                            _ => vec![[-1, -1]],
                        });
                    }
                    ev.held = self.held.iter().map(|t| t.id).collect();
                    ev.ab = if is_bump() { self.bump.allocated_bytes() as i64 } else { 0 };
                    for c in &self.canaries {
                        let now = unsafe { std::slice::from_raw_parts(c.ptr as *const u8, c.bytes.len()) };
                        if now != &c.bytes[..] {
                            ev.canary_ok = 0;
                        }
                    }
                    self.out.push(ev);
                }

                pub fn step(&mut self, op: &COp) {
                    match op.clone() {
                        COp::NewVec { v, cap } => {
                            let mut ev = base("new");
                            ev.a = cap;
                            self.call(ev, v as i64, -1, |s, _| {
                                let old = s.slot(v).take();
                                drop(old);
                                let nv: $V = new_vec!($modname, s.bump, cap);
                                *s.slot(v) = Some(nv);
                            });
                        }
                        COp::FromIter { v, vals } => {
                            let mut ev = base("from_iter");
                            ev.vals = vals.clone();
                            self.call(ev, v as i64, -1, |s, _| {
                                let old = s.slot(v).take();
                                drop(old);
                                let it = vals.iter().map(|&x| {
                                    tick();
                                    Tr::new(x)
                                });
                                let nv: $V = from_iter!($modname, s.bump, it);
                                *s.slot(v) = Some(nv);
                            });
                        }
                        COp::Push { v, val } => {
                            let mut ev = base("push");
                            ev.vals = vec![val];
                            self.call(ev, v as i64, -1, |s, _| {
                                let t = Tr::new(val);
                                if let Some(x) = s.slot(v).as_mut() {
                                    x.push(t);
                                }
                            });
                        }
                        COp::Pop { v } => {
                            let ev = base("pop");
                            self.call(ev, v as i64, -1, |s, ev| {
                                if let Some(x) = s.slot(v).as_mut() {
                                    if let Some(t) = x.pop() {
                                        ev.ret.push([t.id, t.val]);
                                        s.held.push(t);
                                    }
                                }
                            });
                        }
                        COp::Insert { v, i, val } => {
                            let mut ev = base("insert");
                            ev.a = i;
                            ev.vals = vec![val];
                            self.call(ev, v as i64, -1, |s, _| {
                                let t = Tr::new(val);
                                if let Some(x) = s.slot(v).as_mut() {
                                    x.insert(ub(i), t);
                                }
                            });
                        }
                        COp::Remove { v, i } => {
                            let mut ev = base("remove");
                            ev.a = i;
                            self.call(ev, v as i64, -1, |s, ev| {
                                if let Some(x) = s.slot(v).as_mut() {
                                    let t = x.remove(ub(i));
                                    ev.ret.push([t.id, t.val]);
                                    s.held.push(t);
                                }
                            });
                        }
                        COp::SwapRemove { v, i } => {
                            let mut ev = base("swap_remove");
                            ev.a = i;
                            self.call(ev, v as i64, -1, |s, ev| {
                                if let Some(x) = s.slot(v).as_mut() {
                                    let t = x.swap_remove(ub(i));
                                    ev.ret.push([t.id, t.val]);
                                    s.held.push(t);
                                }
                            });
                        }
                        COp::Truncate { v, n } => {
                            let mut ev = base("truncate");
                            ev.a = n;
                            self.call(ev, v as i64, -1, |s, _| {
                                if let Some(x) = s.slot(v).as_mut() {
                                    x.truncate(ub(n));
                                }
                            });
                        }
                        COp::Clear { v } => {
                            let ev = base("clear");
                            self.call(ev, v as i64, -1, |s, _| {
                                if let Some(x) = s.slot(v).as_mut() {
                                    x.clear();
                                }
                            });
                        }
                        COp::Resize { v, n, val } => {
                            let mut ev = base("resize");
                            ev.a = n;
                            ev.vals = vec![val];
                            self.call(ev, v as i64, -1, |s, _| {
                                let t = Tr::new(val);
                                if let Some(x) = s.slot(v).as_mut() {
                                    x.resize(ub(n), t);
                                }
                            });
                        }
                        COp::ExtendFromSlice { v, vals } => {
                            let mut ev = base("extend_from_slice");
                            ev.vals = vals.clone();
                            // the source elements are created (and dropped again) outside the call
                            let src: Vec<Tr> = vals.iter().map(|&x| Tr::new(x)).collect();
                            let srcids: Vec<i64> = src.iter().map(|t| t.id).collect();
                            ev.leaked = Vec::new();
                            self.call(ev, v as i64, -1, |s, _| {
                                if let Some(x) = s.slot(v).as_mut() {
                                    x.extend_from_slice(&src[..]);
                                }
                            });
                            // source slice goes away quietly: not part of the call
                            let e = self.out.last_mut().unwrap();
                            e.b = srcids.len() as i64;
                            for t in src {
                                std::mem::forget(t);
                            }
                        }
                        COp::Extend { v, vals } => {
                            let mut ev = base("extend");
                            ev.vals = vals.clone();
                            self.call(ev, v as i64, -1, |s, _| {
                                let it = vals.iter().map(|&x| {
                                    tick();
                                    Tr::new(x)
                                });
                                if let Some(x) = s.slot(v).as_mut() {
                                    x.extend(it);
                                }
                            });
                        }
                        COp::Append { v, w } => {
                            if v == w {
                                return;
                            }
                            let ev = base("append");
                            self.call(ev, v as i64, w as i64, |s, _| {
                                let mut other = s.slot(w).take();
                                if let (Some(x), Some(o)) = (s.slot(v).as_mut(), other.as_mut()) {
                                    x.append(o);
                                }
                                *s.slot(w) = other;
                            });
                        }
                        COp::SplitOff { v, at, w } => {
                            if v == w {
                                return;
                            }
                            let mut ev = base("split_off");
                            ev.a = at;
                            if self.slot(v).is_none() {
                                return;
                            }
                            self.call(ev, v as i64, w as i64, |s, _| {
                                let old = s.slot(w).take();
                                drop(old);
                                let tail = s.slot(v).as_mut().map(|x| x.split_off(ub(at)));
                                *s.slot(w) = tail;
                            });
                        }
                        COp::Drain { v, r, front, back, forget } => {
                            let mut ev = base("drain");
                            ev.rg = [r.sk as i64, r.s, r.ek as i64, r.e];
                            ev.a = front as i64;
                            ev.b = back as i64;
                            ev.flag = forget as i64;
                            self.call(ev, v as i64, -1, |s, ev| {
                                let mut got = Vec::new();
                                if let Some(x) = s.vecs[v].as_mut() {
                                    let mut d = x.drain(r.bounds());
                                    for _ in 0..front {
                                        if let Some(t) = d.next() {
                                            got.push(t);
                                        }
                                    }
                                    for _ in 0..back {
                                        if let Some(t) = d.next_back() {
                                            got.push(t);
                                        }
                                    }
                                    if forget {
                                        std::mem::forget(d);
                                    }
                                }
                                for t in got {
                                    ev.ret.push([t.id, t.val]);
                                    s.held.push(t);
                                }
                            });
                        }
                        COp::Splice { v, r, vals, take, inexact } => {
                            let mut ev = base("splice");
                            ev.rg = [r.sk as i64, r.s, r.ek as i64, r.e];
                            ev.a = take as i64;
                            ev.flag = inexact as i64;
                            ev.vals = vals.clone();
                            self.call(ev, v as i64, -1, |s, ev| {
                                let mut got = Vec::new();
                                if let Some(x) = s.vecs[v].as_mut() {
                                    let it = vals.iter().map(|&x| {
                                        tick();
                                        Tr::new(x)
                                    });
                                    // an iterator whose size_hint lower bound under-reports (filter): Splice::drop
                                    // then has to collect the rest and move the tail a second time
                                    let it: Box<dyn Iterator<Item = Tr>> = if inexact { Box::new(it.filter(|_| true)) } else { Box::new(it) };
                                    let mut sp = x.splice(r.bounds(), it);
                                    for _ in 0..take {
                                        if let Some(t) = sp.next() {
                                            got.push(t);
                                        }
                                    }
                                }
                                for t in got {
                                    ev.ret.push([t.id, t.val]);
                                    s.held.push(t);
                                }
                            });
                        }
                        COp::Retain { v, m } => {
                            let mut ev = base("retain");
                            ev.a = m;
                            self.call(ev, v as i64, -1, |s, _| {
                                if let Some(x) = s.slot(v).as_mut() {
                                    x.retain(|t| {
                                        tick();
                                        t.val % m != 0
                                    });
                                }
                            });
                        }
                        COp::DrainFilter { v, m, take } => {
                            let mut ev = base("drain_filter");
                            ev.a = m;
                            ev.b = take;
                            self.call(ev, v as i64, -1, |s, ev| {
                                // elements handed out before a later panic are owned by the caller: keep
                                // them in a holder that survives unwinding
                                let holder = std::cell::RefCell::new(Vec::new());
                                let r = catch_unwind(AssertUnwindSafe(|| {
                                    if let Some(x) = s.vecs[v].as_mut() {
                                        let mut df = drain_filter!($modname, x, |t: &mut Tr| {
                                            tick();
                                            t.val % m == 0
                                        });
                                        let mut n = 0;
                                        while take < 0 || n < take {
                                            match df.next() {
                                                Some(t) => holder.borrow_mut().push(t),
                                                None => break,
                                            }
                                            n += 1;
                                        }
                                        // bumpalo's DrainFilter (like the original nightly drain_filter) finishes
                                        // the filtering when dropped; std's extract_if stops, so the std twin
                                        // exhausts the iterator explicitly
                                        finish_filter!($modname, df);
                                    }
                                }));
                                for t in holder.into_inner() {
                                    ev.ret.push([t.id, t.val]);
                                    s.held.push(t);
                                }
                                if let Err(e) = r {
                                    std::panic::resume_unwind(e);
                                }
                            });
                        }
                        COp::Dedup { v } => {
                            let ev = base("dedup");
                            self.call(ev, v as i64, -1, |s, _| {
                                if let Some(x) = s.slot(v).as_mut() {
                                    x.dedup();
                                }
                            });
                        }
                        COp::DedupByKey { v, m } => {
                            let mut ev = base("dedup_by_key");
                            ev.a = m;
                            self.call(ev, v as i64, -1, |s, _| {
                                if let Some(x) = s.slot(v).as_mut() {
                                    x.dedup_by_key(|t| {
                                        tick();
                                        t.val / m
                                    });
                                }
                            });
                        }
                        COp::DedupBy { v } => {
                            let ev = base("dedup_by");
                            self.call(ev, v as i64, -1, |s, ev| {
                                let mut args: Vec<[i64; 2]> = Vec::new();
                                if let Some(x) = s.slot(v).as_mut() {
                                    x.dedup_by(|a, b| {
                                        tick();
                                        args.push([a.id, b.id]);
                                        a.val <= b.val
                                    });
                                }
                                ev.cbargs = args;
                            });
                        }
                        COp::Reserve { v, n, exact, fallible } => {
                            let mut ev = base(match (exact, fallible) {
                                (false, false) => "reserve",
                                (true, false) => "reserve_exact",
                                (false, true) => "try_reserve",
                                (true, true) => "try_reserve_exact",
                            });
                            ev.a = n.min(i32::MAX as i64);
                            self.call(ev, v as i64, -1, |s, ev| {
                                if let Some(x) = s.slot(v).as_mut() {
                                    let n = ub(n);
                                    match (exact, fallible) {
                                        (false, false) => x.reserve(n),
                                        (true, false) => x.reserve_exact(n),
                                        (false, true) => {
                                            if x.try_reserve(n).is_err() {
                                                ev.res = "err".into();
                                            }
                                        }
                                        (true, true) => {
                                            if x.try_reserve_exact(n).is_err() {
                                                ev.res = "err".into();
                                            }
                                        }
                                    }
                                }
                            });
                        }
                        COp::ShrinkToFit { v } => {
                            let ev = base("shrink_to_fit");
                            self.call(ev, v as i64, -1, |s, _| {
                                if let Some(x) = s.slot(v).as_mut() {
                                    x.shrink_to_fit();
                                }
                            });
                        }
                        COp::CloneVec { v, w } => {
                            if v == w {
                                return;
                            }
                            let ev = base("clone");
                            if self.slot(v).is_none() {
                                return;
                            }
                            self.call(ev, v as i64, w as i64, |s, _| {
                                let old = s.slot(w).take();
                                drop(old);
                                let c = s.slot(v).as_ref().map(|x| x.clone());
                                *s.slot(w) = c;
                            });
                        }
                        COp::IntoIter { v, front, back } => {
                            let mut ev = base("into_iter");
                            ev.a = front as i64;
                            ev.b = back as i64;
                            self.call(ev, v as i64, -1, |s, ev| {
                                let mut got = Vec::new();
                                if let Some(x) = s.slot(v).take() {
                                    let mut it = x.into_iter();
                                    for _ in 0..front {
                                        if let Some(t) = it.next() {
                                            got.push(t);
                                        }
                                    }
                                    for _ in 0..back {
                                        if let Some(t) = it.next_back() {
                                            got.push(t);
                                        }
                                    }
                                    ev.retn = it.len() as i64;
                                }
                                for t in got {
                                    ev.ret.push([t.id, t.val]);
                                    s.held.push(t);
                                }
                            });
                        }
                        COp::IntoIterVia { v, how, n } => {
                            let mut ev = base("into_iter_via");
                            ev.a = how as i64;
                            ev.b = n as i64;
                            self.call(ev, v as i64, -1, |s, ev| {
                                let mut got: Vec<Tr> = Vec::new();
                                if let Some(x) = s.slot(v).take() {
                                    let mut it = x.into_iter();
                                    match how {
                                        0 => got.extend(it.nth(n)),
                                        1 => got.extend(it.by_ref().skip(n).next()),
                                        2 => got.extend(it.by_ref().step_by(n + 1)),
                                        3 => got.extend(it.by_ref().last()),
                                        4 => ev.retn = it.by_ref().count() as i64,
                                        5 => got.extend(it.by_ref().rev().nth(n)),
                                        _ => {
                                            got.extend(it.nth(n));
                                            got.extend(it.nth(n));
                                            got.extend(it.next());
                                        }
                                    }
                                    if how != 4 {
                                        ev.retn = it.len() as i64;
                                    }
                                    drop(it);
                                }
                                for t in got {
                                    ev.ret.push([t.id, t.val]);
                                    s.held.push(t);
                                }
                            });
                        }
                        COp::VecViews { v, w } => {
                            let ev = base("vec_views");
                            self.call(ev, v as i64, -1, |s, ev| {
                                let _g = rec::pause();
                                let mut bad: i64 = 0;
                                let mut chk = |i: u32, ok: bool| {
                                    if !ok {
                                        bad |= 1 << i;
                                    }
                                };
                                let mut x = s.slot(v).take();
                                let y = if w != v { s.slot(w).take() } else { None };
                                if let Some(x) = x.as_mut() {
                                    use std::borrow::{Borrow, BorrowMut};
                                    let want: Vec<(i64, i64)> = x.iter().map(|t| (t.id, t.val)).collect();
                                    let same = |sl: &[Tr]| sl.len() == want.len() && sl.iter().zip(want.iter()).all(|(t, w)| (t.id, t.val) == *w);
                                    {
                                        let xs: &[Tr] = &x[..];
                                        chk(0, x.len() == want.len() && x.is_empty() == want.is_empty() && same(xs));
                                        chk(1, same(x.as_slice()) && same(&**x) && same(AsRef::<[Tr]>::as_ref(&*x)) && same(Borrow::<[Tr]>::borrow(&*x)));
                                        chk(2, x.as_ptr() == xs.as_ptr() && (want.is_empty() || &x[0] as *const Tr == xs.as_ptr()));
                                        chk(3, hash_of(&*x) == hash_of(xs));
                                        chk(4, format!("{:?}", &*x) == format!("{:?}", xs));
                                        chk(5, (&*x).into_iter().map(|t| t.id).eq(want.iter().map(|w| w.0)));
                                        chk(6, same(&x[..]) && (want.len() < 2 || same2(&x[1..], &want[1..])) && (want.is_empty() || x[want.len() - 1].id == want[want.len() - 1].0));
                                        if let Some(y) = y.as_ref() {
                                            let ys: &[Tr] = &y[..];
                                            chk(7, (*x == *y) == (xs == ys) && (*x != *y) == (xs != ys));
                                            chk(8, PartialOrd::partial_cmp(&*x, y) == xs.partial_cmp(ys) && Ord::cmp(&*x, y) == xs.cmp(ys));
                                            chk(9, (*x < *y) == (xs < ys) && (*x <= *y) == (xs <= ys) && (*x > *y) == (xs > ys) && (*x >= *y) == (xs >= ys));
                                            chk(10, (*x == ys) == (xs == ys) && (*x != ys) == (xs != ys));
                                            chk(11, (*x == &ys[..]) == (xs == ys));
                                        }
                                    }
                                    // mutable views: reverse the elements through one view, check through the next, ... (an even number of times)
                                    let rev: Vec<i64> = want.iter().rev().map(|w| w.0).collect();
                                    let fwd: Vec<i64> = want.iter().map(|w| w.0).collect();
                                    let idsq = |sl: &[Tr]| sl.iter().map(|t| t.id).collect::<Vec<i64>>();
                                    x.as_mut_slice().reverse();
                                    chk(12, idsq(&x[..]) == rev);
                                    { let m: &mut [Tr] = &mut **x; m.reverse(); }
                                    chk(13, idsq(&x[..]) == fwd);
                                    { let m: &mut [Tr] = AsMut::<[Tr]>::as_mut(&mut *x); m.reverse(); }
                                    chk(14, idsq(&x[..]) == rev);
                                    { let m: &mut [Tr] = BorrowMut::<[Tr]>::borrow_mut(&mut *x); m.reverse(); }
                                    chk(15, idsq(&x[..]) == fwd);
                                    { let m: &mut [Tr] = &mut x[..]; m.reverse(); }
                                    chk(16, idsq(&x[..]) == rev);
                                    { let n = x.len(); let p = x.as_mut_ptr(); for i in 0..n / 2 { unsafe { std::ptr::swap(p.add(i), p.add(n - 1 - i)) } } }
                                    chk(17, idsq(&x[..]) == fwd);
                                    chk(18, (&mut *x).into_iter().map(|t| t.id).eq(fwd.iter().cloned()));
                                    if !want.is_empty() {
                                        let last = want.len() - 1;
                                        let t: &mut Tr = &mut x[last];
                                        chk(19, t.id == want[last].0);
                                    }
                                }
                                *s.slot(v) = x;
                                if w != v {
                                    *s.slot(w) = y;
                                }
                                ev.retn = bad;
                            });
                        }
                        COp::IntoBumpSlice { v, mutable } => {
                            let mut ev = base("into_bump_slice");
                            ev.flag = mutable as i64;
                            self.call(ev, v as i64, -1, |s, ev| {
                                if let Some(x) = s.slot(v).take() {
                                    let sl: &[Tr] = into_slice!($modname, x, mutable);
                                    ev.leaked = sl.iter().map(|t| t.id).collect();
                                    ev.ret = ids(sl.iter());
                                }
                            });
                        }
                        COp::IntoBoxedSlice { v, b, via_from } => {
                            let mut ev = base("into_boxed_slice");
                            ev.a = b as i64;
                            ev.flag = via_from as i64;
                            if self.slot(v).is_none() {
                                return;
                            }
                            self.call(ev, v as i64, -1, |s, ev| {
                                let old = s.bsslot(b).take();
                                drop(old);
                                if let Some(x) = s.slot(v).take() {
                                    let bx: $BS = if via_from { <$BS>::from(x) } else { x.into_boxed_slice() };
                                    ev.ret = ids(bx.iter());
                                    *s.bsslot(b) = Some(bx);
                                }
                            });
                        }
                        COp::Get { v, i } => {
                            let mut ev = base("index");
                            ev.a = i;
                            self.call(ev, v as i64, -1, |s, ev| {
                                if let Some(x) = s.slot(v).as_ref() {
                                    let t = &x[ub(i)];
                                    ev.retn = t.val;
                                }
                            });
                        }
                        COp::DropVec { v } => {
                            let ev = base("drop_vec");
                            self.call(ev, v as i64, -1, |s, _| {
                                let old = s.slot(v).take();
                                drop(old);
                            });
                        }
                        COp::BoxNew { b, val } => {
                            let mut ev = base("box_new");
                            ev.a = b as i64;
                            ev.vals = vec![val];
                            self.call(ev, -1, -1, |s, _| {
                                let old = s.bslot(b).take();
                                drop(old);
                                let t = Tr::new(val);
                                let bx: $B = box_new!($modname, s.bump, t);
                                *s.bslot(b) = Some(bx);
                            });
                        }
                        COp::BoxDrop { b } => {
                            let mut ev = base("box_drop");
                            ev.a = b as i64;
                            self.call(ev, -1, -1, |s, _| {
                                let old = s.bslot(b).take();
                                drop(old);
                                let old = s.bsslot(b).take();
                                drop(old);
                            });
                        }
                        COp::BoxIntoInner { b } => {
                            let mut ev = base("box_into_inner");
                            ev.a = b as i64;
                            self.call(ev, -1, -1, |s, ev| {
                                if let Some(bx) = s.bslot(b).take() {
                                    let t: Tr = box_into_inner!($modname, bx);
                                    ev.ret.push([t.id, t.val]);
                                    s.held.push(t);
                                }
                            });
                        }
                        COp::BoxLeak { b } => {
                            let mut ev = base("box_leak");
                            ev.a = b as i64;
                            self.call(ev, -1, -1, |s, ev| {
                                if let Some(bx) = s.bslot(b).take() {
                                    let t: &mut Tr = box_leak!($modname, bx);
                                    ev.leaked.push(t.id);
                                    ev.ret.push([t.id, t.val]);
                                }
                            });
                        }
                        COp::BoxRawRoundTrip { b } => {
                            let mut ev = base("box_raw_roundtrip");
                            ev.a = b as i64;
                            self.call(ev, -1, -1, |s, ev| {
                                if let Some(bx) = s.bslot(b).take() {
                                    let bx2: $B = box_raw_rt!($modname, bx);
                                    ev.ret.push([bx2.id, bx2.val]);
                                    *s.bslot(b) = Some(bx2);
                                }
                            });
                        }
                        COp::BoxFromIter { b, vals } => {
                            let mut ev = base("box_from_iter");
                            ev.a = b as i64;
                            ev.vals = vals.clone();
                            self.call(ev, -1, -1, |s, ev| {
                                let old = s.bsslot(b).take();
                                drop(old);
                                let items: Vec<Tr> = vals.iter().map(|&x| Tr::new(x)).collect();
                                let bx: $BS = box_from_iter!($modname, s.bump, items);
                                ev.ret = ids(bx.iter());
                                *s.bsslot(b) = Some(bx);
                            });
                        }
                        COp::BoxRead { b } => {
                            let mut ev = base("box_read");
                            ev.a = b as i64;
                            self.call(ev, -1, -1, |s, ev| {
                                if let Some(bx) = s.bslot(b).as_ref() {
                                    ev.ret.push([bx.id, bx.val]);
                                    // forwarding: Debug of the box equals Debug of the value
                                    let _g = rec::pause();
                                    let a = format!("{:?}", bx);
                                    let v: &Tr = &**bx;
                                    let c = format!("{:?}", v);
                                    ev.retn = (a == c) as i64;
                                }
                                if let Some(bs) = s.bsslot(b).as_ref() {
                                    ev.ret = ids(bs.iter());
                                }
                            });
                        }
                        COp::BoxForward { kind, a, b } => {
                            let mut ev = base("box_forward");
                            ev.a = kind as i64;
                            ev.vals = vec![a, b];
                            self.call(ev, -1, -1, |s, ev| {
                                let _g = rec::pause();
                                let mut bad: i64 = 0;
                                let mut chk = |i: u32, ok: bool| {
                                    if !ok {
                                        bad |= 1 << i;
                                    }
                                };
                                match kind {
                                    0 => {
                                        let (x, y) = (Tr::new(a), Tr::new(b));
                                        let (vx, vy) = (a, b);
                                        let bx: $B = box_new!($modname, s.bump, x);
                                        let by: $B = box_new!($modname, s.bump, y);
                                        chk(0, (bx == by) == (vx == vy));
                                        chk(1, (bx != by) == (vx != vy));
                                        chk(2, (bx < by) == (vx < vy));
                                        chk(3, (bx <= by) == (vx <= vy));
                                        chk(4, (bx > by) == (vx > vy));
                                        chk(5, (bx >= by) == (vx >= vy));
                                        chk(6, bx.cmp(&by) == vx.cmp(&vy));
                                        chk(7, bx.partial_cmp(&by) == vx.partial_cmp(&vy));
                                        chk(8, hash_of(&bx) == hash_of(&vx));
                                        chk(9, std::cmp::max(&bx, &by).val == std::cmp::max(vx, vy));
                                    }
                                    1 => {
                                        let data: Vec<i64> = (0..(a.max(0) as usize + 5)).map(|i| i as i64 * 3 + b).collect();
                                        let mut plain = data.clone().into_iter();
                                        let mut boxed = box_any!($modname, s.bump, data.clone().into_iter());
                                        chk(0, boxed.size_hint() == plain.size_hint());
                                        chk(1, boxed.len() == plain.len());
                                        chk(2, boxed.next() == plain.next());
                                        chk(3, boxed.nth(1) == plain.nth(1));
                                        chk(4, boxed.next_back() == plain.next_back());
                                        chk(5, boxed.nth_back(1) == plain.nth_back(1));
                                        chk(6, boxed.size_hint() == plain.size_hint());
                                        chk(7, boxed.len() == plain.len());
                                        chk(8, boxed.last() == plain.last());
                                    }
                                    2 => {
                                        use std::hash::Hasher;
                                        let mut plain = std::collections::hash_map::DefaultHasher::new();
                                        let mut boxed = box_any!($modname, s.bump, std::collections::hash_map::DefaultHasher::new());
                                        macro_rules! both { ($m:ident, $v:expr) => { plain.$m($v); boxed.$m($v); } }
                                        both!(write_u8, a as u8);
                                        chk(0, boxed.finish() == plain.finish());
                                        both!(write_u16, b as u16);
                                        chk(1, boxed.finish() == plain.finish());
                                        both!(write_u32, a as u32 ^ 0xABCD);
                                        chk(2, boxed.finish() == plain.finish());
                                        both!(write_u64, b as u64 ^ 0x1234_5678_9ABC);
                                        chk(3, boxed.finish() == plain.finish());
                                        both!(write_u128, (a as u128) << 70 | b as u128);
                                        chk(4, boxed.finish() == plain.finish());
                                        both!(write_usize, a as usize + 7);
                                        chk(5, boxed.finish() == plain.finish());
                                        both!(write_i8, -(a as i8));
                                        chk(6, boxed.finish() == plain.finish());
                                        both!(write_i16, -(b as i16));
                                        chk(7, boxed.finish() == plain.finish());
                                        both!(write_i32, -(a as i32) - 3);
                                        chk(8, boxed.finish() == plain.finish());
                                        both!(write_i64, -(b as i64) - 5);
                                        chk(9, boxed.finish() == plain.finish());
                                        both!(write_i128, -((a as i128) << 80));
                                        chk(10, boxed.finish() == plain.finish());
                                        both!(write_isize, -(b as isize));
                                        chk(11, boxed.finish() == plain.finish());
                                        both!(write, &[1u8, 2, a as u8, b as u8]);
                                        chk(12, boxed.finish() == plain.finish());
                                    }
                                    3 => {
                                        let bx: $B = box_new!($modname, s.bump, Tr::new(a));
                                        let plain = Tr { id: bx.id, val: a };
                                        chk(0, format!("{}", bx) == format!("{}", plain));
                                        chk(1, format!("{:?}", bx) == format!("{:?}", plain));
                                        chk(2, format!("{:>12}", bx) == format!("{:>12}", plain));
                                        let addr = &*bx as *const Tr;
                                        chk(3, format!("{:p}", bx) == format!("{:p}", addr));
                                        std::mem::forget(plain);
                                        // the caller's format spec (width, fill, alignment, sign, precision, alternate) must reach the value
                                        let bi = box_any!($modname, s.bump, a);
                                        chk(4, format!("{:>9}|{:<7}|{:^8}|{:+}|{:05}", bi, bi, bi, bi, bi) == format!("{:>9}|{:<7}|{:^8}|{:+}|{:05}", a, a, a, a, a));
                                        chk(5, format!("{:6?}|{:#?}|{:+?}", bi, bi, bi) == format!("{:6?}|{:#?}|{:+?}", a, a, a));
                                        let fl = a as f64 / 7.0 + b as f64;
                                        let bf = box_any!($modname, s.bump, fl);
                                        chk(6, format!("{:.3}|{:10.2}|{:+}|{:08.1}", bf, bf, bf, bf) == format!("{:.3}|{:10.2}|{:+}|{:08.1}", fl, fl, fl, fl));
                                        let st: &'static str = "héllo wörld";
                                        let bs = box_any!($modname, s.bump, st);
                                        chk(7, format!("{:.3}|{:>14}|{:*<13.4}|{:?}|{:12?}", bs, bs, bs, bs, bs) == format!("{:.3}|{:>14}|{:*<13.4}|{:?}|{:12?}", st, st, st, st, st));
                                        let (w, p) = ((a.rem_euclid(9) + 3) as usize, (b.rem_euclid(4)) as usize);
                                        chk(8, format!("{:>w$.p$}|{:<w$}", bf, bi, w = w, p = p) == format!("{:>w$.p$}|{:<w$}", fl, a, w = w, p = p));
                                        let tup = (a, "x", [b; 2]);
                                        let bt = box_any!($modname, s.bump, tup);
                                        chk(9, format!("{:?}|{:#?}", bt, bt) == format!("{:?}|{:#?}", tup, tup));
                                    }
                                    4 => {
                                        use std::future::Future;
                                        let w = noop_waker();
                                        let mut cx = std::task::Context::from_waker(&w);
                                        let mut boxed = box_any!($modname, s.bump, ReadyAfter((a.max(0) % 3) as u32, b));
                                        let mut plain = ReadyAfter((a.max(0) % 3) as u32, b);
                                        for i in 0..4u32 {
                                            let x = std::pin::Pin::new(&mut boxed).poll(&mut cx);
                                            let y = std::pin::Pin::new(&mut plain).poll(&mut cx);
                                            chk(i, x == y);
                                            if x.is_ready() {
                                                break;
                                            }
                                        }
                                    }
                                    _ => {
                                        let mut bx: $B = box_new!($modname, s.bump, Tr::new(a));
                                        chk(0, (*bx).val == a);
                                        let r: &Tr = bx.as_ref();
                                        chk(1, r.val == a);
                                        let r2: &Tr = std::borrow::Borrow::borrow(&bx);
                                        chk(2, r2.val == a);
                                        (*bx).val = b;
                                        chk(3, bx.val == b);
                                        let m: &mut Tr = bx.as_mut();
                                        m.val = a;
                                        chk(4, bx.val == a);
                                        let p = box_pin!($modname, s.bump, Tr::new(b));
                                        chk(5, p.val == b);
                                        let p2: std::pin::Pin<$B> = bx.into();
                                        chk(6, p2.val == a);
                                    }
                                }
                                ev.retn = bad;
                            });
                        }
                        COp::BoxDowncast { b, matching, send } => {
                            let mut ev = base("box_downcast");
                            ev.a = b as i64;
                            ev.flag = matching as i64;
                            ev.b = send as i64;
                            self.call(ev, -1, -1, |s, ev| {
                                if let Some(bx) = s.bslot(b).take() {
                                    let back: Option<$B> = box_downcast!($modname, bx, matching, send);
                                    match back {
                                        Some(bx2) => {
                                            ev.ret.push([bx2.id, bx2.val]);
                                            ev.retn = 1;
                                            *s.bslot(b) = Some(bx2);
                                        }
                                        None => ev.retn = 0,
                                    }
                                }
                            });
                        }
                        COp::BoxArray { b, vals, back } => {
                            let mut ev = base("box_array");
                            ev.a = b as i64;
                            ev.vals = vals.clone();
                            ev.flag = back as i64;
                            self.call(ev, -1, -1, |s, ev| {
                                let old = s.bsslot(b).take();
                                drop(old);
                                let v3 = [vals.get(0).cloned().unwrap_or(1), vals.get(1).cloned().unwrap_or(2), vals.get(2).cloned().unwrap_or(3)];
                                let arr = [Tr::new(v3[0]), Tr::new(v3[1]), Tr::new(v3[2])];
                                let sl: $BS = box_array_roundtrip!($modname, s.bump, arr, back);
                                ev.ret = ids(sl.iter());
                                *s.bsslot(b) = Some(sl);
                            });
                        }
                        COp::DropHeld => {
                            let ev = base("drop_held");
                            self.call(ev, -1, -1, |s, _| {
                                let h = std::mem::take(&mut s.held);
                                drop(h);
                            });
                        }
                        COp::Canary { size } => {
                            let mut ev = base("canary");
                            ev.a = size as i64;
                            self.call(ev, -1, -1, |s, _| {
                                if is_bump() {
                                    let n = s.canaries.len();
                                    let bytes: Vec<u8> = {
                                        let _g = rec::pause();
                                        (0..size).map(|i| (i * 7 + n * 13 + 1) as u8).collect()
                                    };
                                    let sl = s.bump.alloc_slice_copy(&bytes[..]);
                                    let _g = rec::pause();
                                    s.canaries.push(Canary { ptr: sl.as_ptr() as usize, bytes });
                                }
                            });
                        }
                        COp::PanicAt { n } => {
                            LG.with(|l| {
                                let mut l = l.borrow_mut();
                                l.panic_at = if n < 0 { -1 } else { l.ticks + n };
                                l.panicked = false;
                            });
                        }
                        COp::ArenaReset => {}
                    }
                }
            }

            pub fn run(p: usize, prog: &CProgram) -> Vec<CEvent> {
                rec::reset_slice();
                LG.with(|l| *l.borrow_mut() = Ledger { panic_at: -1, ..Default::default() });
                let bump = Bump::new();
                let mut st = State { bump: &bump, vecs: Vec::new(), boxes: Vec::new(), bslices: Vec::new(), held: Vec::new(), canaries: Vec::new(), out: Vec::new(), p, tag: prog.tag.clone() };
                for op in &prog.ops {
                    st.step(op);
                }
                // quiescence: drop every container, then everything the caller holds
                LG.with(|l| l.borrow_mut().panic_at = -1);
                let n = st.vecs.len();
                for v in 0..n {
                    if st.vecs[v].is_some() {
                        st.step(&COp::DropVec { v });
                    }
                }
                let nb = st.boxes.len().max(st.bslices.len());
                for b in 0..nb {
                    let has = st.boxes.get(b).map(|x| x.is_some()).unwrap_or(false) || st.bslices.get(b).map(|x| x.is_some()).unwrap_or(false);
                    if has {
                        st.step(&COp::BoxDrop { b });
                    }
                }
                st.step(&COp::DropHeld);
                // events may own buffers that were allocated while recording, i.e. inside the
                // recorder's region, which the next program recycles: deep-copy them out
                let out_region = std::mem::take(&mut st.out);
                let out = out_region.clone();
                drop(out_region);
                drop(st);
                out
            }
        }
    };
}

// ---- the few places where the two APIs differ
macro_rules! new_vec {
    (bumpi, $bump:expr, $cap:expr) => {
        if $cap < 0 { BVec::new_in($bump) } else { BVec::with_capacity_in(ub($cap), $bump) }
    };
    (stdi, $bump:expr, $cap:expr) => {
        if $cap < 0 { Vec::new() } else { Vec::with_capacity(ub($cap)) }
    };
}
macro_rules! from_iter {
    (bumpi, $bump:expr, $it:expr) => { BVec::from_iter_in($it, $bump) };
    (stdi, $bump:expr, $it:expr) => { $it.collect::<Vec<Tr>>() };
}
macro_rules! drain_filter {
    (bumpi, $x:expr, $f:expr) => { $x.drain_filter($f) };
    (stdi, $x:expr, $f:expr) => { $x.extract_if(.., $f) };
}
macro_rules! finish_filter {
    (bumpi, $df:expr) => { drop($df) };
    (stdi, $df:expr) => { $df.for_each(drop) };
}
macro_rules! into_slice {
    (bumpi, $x:expr, $m:expr) => { if $m { &*$x.into_bump_slice_mut() } else { $x.into_bump_slice() } };
    (stdi, $x:expr, $m:expr) => { &*$x.leak() };
}
macro_rules! box_new {
    (bumpi, $bump:expr, $t:expr) => { bumpalo::boxed::Box::new_in($t, $bump) };
    (stdi, $bump:expr, $t:expr) => { std::boxed::Box::new($t) };
}
macro_rules! box_into_inner {
    (bumpi, $b:expr) => { bumpalo::boxed::Box::into_inner($b) };
    (stdi, $b:expr) => { *$b };
}
macro_rules! box_leak {
    (bumpi, $b:expr) => { bumpalo::boxed::Box::leak($b) };
    (stdi, $b:expr) => { std::boxed::Box::leak($b) };
}
macro_rules! box_raw_rt {
    (bumpi, $b:expr) => { unsafe { bumpalo::boxed::Box::from_raw(bumpalo::boxed::Box::into_raw($b)) } };
    (stdi, $b:expr) => { unsafe { std::boxed::Box::from_raw(std::boxed::Box::into_raw($b)) } };
}
macro_rules! box_any {
    (bumpi, $bump:expr, $x:expr) => { bumpalo::boxed::Box::new_in($x, $bump) };
    (stdi, $bump:expr, $x:expr) => { std::boxed::Box::new($x) };
}
macro_rules! box_pin {
    (bumpi, $bump:expr, $x:expr) => { bumpalo::boxed::Box::pin_in($x, $bump) };
    (stdi, $bump:expr, $x:expr) => { std::boxed::Box::pin($x) };
}
macro_rules! box_downcast {
    (bumpi, $bx:expr, $matching:expr, $send:expr) => {{
        use std::any::Any;
        let raw = bumpalo::boxed::Box::into_raw($bx);
        if $send {
            let any: bumpalo::boxed::Box<dyn Any + Send> = unsafe { bumpalo::boxed::Box::from_raw(raw as *mut (dyn Any + Send)) };
            if $matching {
                match any.downcast::<Tr>() { Ok(t) => Some(t), Err(_) => None }
            } else {
                match any.downcast::<u32>() {
                    Ok(_) => None,
                    Err(orig) => match orig.downcast::<Tr>() { Ok(t) => Some(t), Err(_) => None },
                }
            }
        } else {
            let any: bumpalo::boxed::Box<dyn Any> = unsafe { bumpalo::boxed::Box::from_raw(raw as *mut dyn Any) };
            if $matching {
                match any.downcast::<Tr>() { Ok(t) => Some(t), Err(_) => None }
            } else {
                match any.downcast::<u32>() {
                    Ok(_) => None,
                    Err(orig) => match orig.downcast::<Tr>() { Ok(t) => Some(t), Err(_) => None },
                }
            }
        }
    }};
    (stdi, $bx:expr, $matching:expr, $send:expr) => {{
        use std::any::Any;
        if $send {
            let any: std::boxed::Box<dyn Any + Send> = $bx;
            if $matching {
                match any.downcast::<Tr>() { Ok(t) => Some(t), Err(_) => None }
            } else {
                match any.downcast::<u32>() {
                    Ok(_) => None,
                    Err(orig) => match orig.downcast::<Tr>() { Ok(t) => Some(t), Err(_) => None },
                }
            }
        } else {
            let any: std::boxed::Box<dyn Any> = $bx;
            if $matching {
                match any.downcast::<Tr>() { Ok(t) => Some(t), Err(_) => None }
            } else {
                match any.downcast::<u32>() {
                    Ok(_) => None,
                    Err(orig) => match orig.downcast::<Tr>() { Ok(t) => Some(t), Err(_) => None },
                }
            }
        }
    }};
}
macro_rules! box_array_roundtrip {
    (bumpi, $bump:expr, $arr:expr, $back:expr) => {{
        let ba: bumpalo::boxed::Box<[Tr; 3]> = bumpalo::boxed::Box::new_in($arr, $bump);
        let sl: bumpalo::boxed::Box<[Tr]> = ba.into();
        if $back {
            let again: bumpalo::boxed::Box<[Tr; 3]> = match std::convert::TryFrom::try_from(sl) { Ok(x) => x, Err(_) => panic!("TryFrom with the right length failed") };
            let sl2: bumpalo::boxed::Box<[Tr]> = again.into();
            sl2
        } else {
            let r: Result<bumpalo::boxed::Box<[Tr; 2]>, bumpalo::boxed::Box<[Tr]>> = std::convert::TryFrom::try_from(sl);
            match r { Ok(_) => panic!("TryFrom accepted a wrong length"), Err(orig) => orig }
        }
    }};
    (stdi, $bump:expr, $arr:expr, $back:expr) => {{
        let ba: std::boxed::Box<[Tr; 3]> = std::boxed::Box::new($arr);
        let sl: std::boxed::Box<[Tr]> = ba;
        if $back {
            let again: std::boxed::Box<[Tr; 3]> = match std::convert::TryFrom::try_from(sl) { Ok(x) => x, Err(_) => panic!("TryFrom with the right length failed") };
            let sl2: std::boxed::Box<[Tr]> = again;
            sl2
        } else {
            let r: Result<std::boxed::Box<[Tr; 2]>, std::boxed::Box<[Tr]>> = std::convert::TryFrom::try_from(sl);
            match r { Ok(_) => panic!("TryFrom accepted a wrong length"), Err(orig) => orig }
        }
    }};
}
macro_rules! box_from_iter {
    (bumpi, $bump:expr, $items:expr) => { bumpalo::boxed::Box::from_iter_in($items.into_iter(), $bump) };
    (stdi, $bump:expr, $items:expr) => { $items.into_iter().collect::<std::boxed::Box<[Tr]>>() };
}

interp!(bumpi, "bump", bumpalo::collections::Vec<'b, Tr>, bumpalo::boxed::Box<'b, Tr>, bumpalo::boxed::Box<'b, [Tr]>, bump = true);
interp!(stdi, "std", std::vec::Vec<Tr>, std::boxed::Box<Tr>, std::boxed::Box<[Tr]>, bump = false);

pub fn init() {
    rec::set_slice(0);
    rec::install_panic_hook();
}

pub fn run_both(p: usize, prog: &CProgram) -> Vec<CEvent> {
    let mut out = bumpi::run(p, prog);
    out.extend(stdi::run(p, prog));
    out
}
