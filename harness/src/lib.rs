pub mod rec;
pub mod arena;
pub mod gen;

#[global_allocator]
static GLOBAL: rec::Rec = rec::Rec;
