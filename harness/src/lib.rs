pub mod rec;
pub mod arena;
pub mod gen;
pub mod coll;
pub mod cgen;

#[global_allocator]
static GLOBAL: rec::Rec = rec::Rec;
