pub mod rec;
pub mod arena;
pub mod gen;
pub mod coll;
pub mod cgen;
pub mod strs;
pub mod sgen;

#[global_allocator]
static GLOBAL: rec::Rec = rec::Rec;
pub mod sizes;
pub mod collx;
pub mod apitrace;
pub mod sentguard;
