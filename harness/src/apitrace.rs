//! API-level tracing of *any* program that uses the crate (the collection / string drivers, the
//! repository's own test suite): the crate's `__verif` API hooks (one event per public arena operation
//! at its return, one per call the crate makes to the global allocator) are turned into the same
//! `arena::Event` records the arena driver emits, so that `ArenaMonitor.tla` can validate them.
//!
//! Nothing here knows what the client program does: block identities, liveness and the chunk ledger are
//! rebuilt from the hook events alone. Real addresses are mapped to small virtual ones (TLC integers are
//! 32-bit): every chunk the crate obtains gets a fresh virtual range with the same residue modulo 4096.

use crate::arena::Event;
use crate::rec;
use bumpalo::__verif::{self as hooks, Api, ArenaView};
use std::cell::RefCell;
use std::collections::HashMap;
use std::io::Write;
use std::sync::Mutex;

struct Blk {
    id: i64,
    addr: usize, // real
    size: usize,
    align: usize,
}

struct ArenaRec {
    i: usize,
    next_blk: i64,
    live: Vec<Blk>,
    // a successful try_alloc_layout event not written yet: when grow / shrink fall back to a fresh allocation they go
    // through try_alloc_layout, and the two hook events are one public operation
    held: Option<(Event, usize, usize)>, // event, real address, size
}

struct Chunk {
    real: usize,
    size: usize,
    v: usize,
}

struct State {
    out: Option<std::io::BufWriter<std::fs::File>>,
    buf: Vec<Event>,
    keep: bool,
    arenas: HashMap<u64, ArenaRec>,
    chunks: Vec<Chunk>,     // held right now (process-wide: a chunk belongs to one arena, addresses are unique)
    vnext: usize,
    events: usize,
    exhausted: bool,
    tag: String,
    threads: HashMap<std::thread::ThreadId, usize>,
}

static STATE: Mutex<Option<State>> = Mutex::new(None);
/// hard caps: virtual address space (TLC integers) and trace length
const VMAX: usize = 1_500_000_000;
const MAX_EVENTS: usize = 600_000;

thread_local! {
    // global-allocator calls made by the crate on this thread since the last API event
    static PENDING: RefCell<Vec<[i64; 5]>> = const { RefCell::new(Vec::new()) };
    static BUSY: std::cell::Cell<bool> = const { std::cell::Cell::new(false) };
}

fn with_state<R>(f: impl FnOnce(&mut State) -> R) -> Option<R> {
    let mut g = STATE.lock().unwrap_or_else(|e| e.into_inner());
    g.as_mut().map(f)
}

/// Start tracing into `path` (ndjson, one `arena::Event` per line, arenas interleaved; `p` = arena id).
pub fn install(path: &str, tag: &str) {
    let _g = rec::pause();
    let f = std::fs::File::create(path).expect("cannot create api trace");
    *STATE.lock().unwrap_or_else(|e| e.into_inner()) = Some(State {
        out: Some(std::io::BufWriter::new(f)),
        buf: Vec::new(),
        keep: false,
        arenas: HashMap::new(),
        chunks: Vec::new(),
        vnext: 65536,
        events: 0,
        exhausted: false,
        tag: tag.to_string(),
        threads: HashMap::new(),
    });
    hooks::set_api_sinks(Some(api_sink), Some(chunk_sink));
}

/// Start tracing into memory (the drivers collect the events with `take`).
pub fn install_mem(tag: &str) {
    let _g = rec::pause();
    *STATE.lock().unwrap_or_else(|e| e.into_inner()) = Some(State {
        out: None,
        buf: Vec::new(),
        keep: true,
        arenas: HashMap::new(),
        chunks: Vec::new(),
        vnext: 65536,
        events: 0,
        exhausted: false,
        tag: tag.to_string(),
        threads: HashMap::new(),
    });
    hooks::set_api_sinks(Some(api_sink), Some(chunk_sink));
}

/// Events collected in memory so far (and forget them).
pub fn take() -> Vec<Event> {
    let _g = rec::pause();
    with_state(|s| {
        let ids: Vec<u64> = s.arenas.keys().cloned().collect();
        for id in ids {
            flush_held(s, id);
        }
        std::mem::take(&mut s.buf)
    })
    .unwrap_or_default()
}

/// Start from the environment: `BUMPALO_VERIF_APITRACE=<path>` (used by the wrapper around the repository's tests).
pub fn install_from_env() {
    if let Ok(p) = std::env::var("BUMPALO_VERIF_APITRACE") {
        install(&p, "suite");
    }
}

pub fn flush() {
    let _g = rec::pause();
    with_state(|s| {
        if let Some(o) = s.out.as_mut() {
            let _ = o.flush();
        }
    });
}

pub fn uninstall() {
    hooks::set_api_sinks(None, None);
    flush();
    let _g = rec::pause();
    *STATE.lock().unwrap_or_else(|e| e.into_inner()) = None;
}

fn sentinel_v() -> i64 {
    (8192 + hooks::sentinel().0 % 4096) as i64
}

fn to_v(s: &State, addr: usize) -> i64 {
    if addr == 0 {
        return 0;
    }
    for c in &s.chunks {
        if c.real <= addr && addr <= c.real + c.size {
            return (c.v + (addr - c.real)) as i64;
        }
    }
    let sent = hooks::sentinel().0;
    if addr >= sent.saturating_sub(2048) && addr <= sent + 2048 {
        return sentinel_v() + addr as i64 - sent as i64;
    }
    -2
}

fn clamp(x: usize) -> i64 {
    x.min(i32::MAX as usize) as i64
}

fn chunk_sink(is_alloc: bool, addr: usize, size: usize, align: usize) {
    if BUSY.with(|b| b.replace(true)) {
        return;
    }
    let _g = rec::pause();
    let entry = with_state(|s| {
        if s.exhausted {
            return None;
        }
        if is_alloc {
            if addr == 0 {
                return Some([1, clamp(size), align as i64, 0, 0]);
            }
            // fresh virtual range, same residue modulo 4096, a page of distance from the previous one
            let base = (s.vnext + 4096 + 4095) & !4095;
            let v = base + addr % 4096;
            s.vnext = v + size;
            if s.vnext > VMAX {
                s.exhausted = true;
                return None;
            }
            s.chunks.push(Chunk { real: addr, size, v });
            Some([1, clamp(size), align as i64, v as i64, 1])
        } else {
            match s.chunks.iter().position(|c| c.real == addr) {
                Some(k) => {
                    let c = s.chunks.remove(k);
                    Some([2, clamp(size), align as i64, c.v as i64, 1])
                }
                None => Some([2, clamp(size), align as i64, -1, 0]),
            }
        }
    });
    if let Some(Some(e)) = entry {
        PENDING.with(|p| p.borrow_mut().push(e));
    }
    BUSY.with(|b| b.set(false));
}

fn base(op: &str) -> Event {
    Event {
        op: op.to_string(),
        res: "ok".to_string(),
        size: -1,
        align: -1,
        len: -1,
        blk: -1,
        cbn: -1,
        errtok: -1,
        ptr: -1,
        oalign: -1,
        failat: -1,
        init_ok: 1,
        prefix_ok: 1,
        zero_ok: 1,
        ..Default::default()
    }
}

fn snapshot(s: &State, ev: &mut Event, view: &dyn ArenaView) {
    view.chunks(&mut |data, footer, finger| {
        ev.chunks.push([to_v(s, data), to_v(s, footer), to_v(s, finger)]);
    });
    ev.ab = clamp(view.allocated_bytes());
    ev.abm = clamp(view.allocated_bytes_including_metadata());
    ev.cap = clamp(view.chunk_capacity());
    ev.lim = view.allocation_limit().map(clamp).unwrap_or(-1);
}

fn flush_held(s: &mut State, id: u64) {
    let h = s.arenas.get_mut(&id).and_then(|a| a.held.take());
    if let Some((ev, _, _)) = h {
        emit(s, ev, id);
    }
}

fn emit(s: &mut State, mut ev: Event, id: u64) {
    let a = s.arenas.get_mut(&id).unwrap();
    ev.p = id as usize;
    ev.i = a.i;
    a.i += 1;
    ev.tag = s.tag.clone();
    ev.sent = sentinel_v();
    ev.salign = hooks::sentinel().1 as i64;
    let tid = std::thread::current().id();
    let n = s.threads.len();
    ev.th = *s.threads.entry(tid).or_insert(n);
    s.events += 1;
    if s.events > MAX_EVENTS {
        s.exhausted = true;
    }
    if s.keep {
        s.buf.push(ev);
    } else if let Some(o) = s.out.as_mut() {
        let _ = serde_json::to_writer(&mut *o, &ev);
        let _ = o.write_all(b"\n");
        let _ = o.flush();
    }
}

fn api_sink(api: &Api, view: &dyn ArenaView) {
    if BUSY.with(|b| b.replace(true)) {
        return;
    }
    let _g = rec::pause();
    let mut pending = PENDING.with(|p| std::mem::take(&mut *p.borrow_mut()));
    with_state(|s| {
        if s.exhausted {
            return;
        }
        let id = view.id();
        let ma = view.min_align();
        if !s.arenas.contains_key(&id) {
            s.arenas.insert(id, ArenaRec { i: 0, next_blk: 0, live: Vec::new(), held: None });
            if api.op != hooks::OP_NEW {
                // an arena made by the const constructor: it holds nothing yet
                let mut e0 = base("new");
                e0.ma = ma;
                e0.lim = -1;
                emit(s, e0, id);
            }
        }
        let mut ev = base("?");
        ev.ma = ma;
        let mut merged_ga: Vec<[i64; 5]> = Vec::new();
        let mut hold: Option<(usize, usize)> = None;
        match api.op {
            hooks::OP_NEW => {
                ev.op = "with_capacity".into();
                ev.fall = 1;
                ev.len = clamp(api.size);
            }
            hooks::OP_ALLOC => {
                ev.op = "try_alloc_layout".into();
                ev.fall = 1;
                ev.size = clamp(api.size);
                ev.align = api.align as i64;
                if api.ok {
                    let a = s.arenas.get_mut(&id).unwrap();
                    let bid = a.next_blk;
                    a.next_blk += 1;
                    a.live.push(Blk { id: bid, addr: api.ptr, size: api.size, align: api.align });
                    ev.addr = api.ptr as i64; // translated below, once the chunk table is final
                    ev.new.push([bid, 0, clamp(api.size), api.align as i64]);
                    hold = Some((api.ptr, api.size));
                } else {
                    ev.res = "err".into();
                }
            }
            hooks::OP_DEALLOC | hooks::OP_REWIND => {
                ev.op = if api.op == hooks::OP_DEALLOC { "deallocate".into() } else { "rewind".into() };
                ev.len = clamp(api.old_size);
                ev.oalign = api.old_align as i64;
                ev.ptr = api.old_ptr as i64;
                let a = s.arenas.get_mut(&id).unwrap();
                if let Some(k) = a.live.iter().rposition(|b| b.addr == api.old_ptr && b.size == api.old_size) {
                    let b = a.live.remove(k);
                    ev.blk = b.id;
                    ev.dead.push(b.id);
                }
            }
            hooks::OP_GROW | hooks::OP_SHRINK => {
                ev.op = if api.op == hooks::OP_GROW { "grow".into() } else { "shrink".into() };
                ev.size = clamp(api.size);
                ev.align = api.align as i64;
                ev.len = clamp(api.old_size);
                ev.oalign = api.old_align as i64;
                ev.ptr = api.old_ptr as i64;
                let a = s.arenas.get_mut(&id).unwrap();
                let old = a.live.iter().rposition(|b| b.addr == api.old_ptr && b.size == api.old_size);
                if let Some(k) = old {
                    ev.blk = a.live[k].id;
                }
                // the fallback path went through try_alloc_layout, which already announced a block there: that
                // held-back event is this operation's allocation, not one of its own
                let nested_ev = match a.held.take() {
                    Some((h, addr, size)) if api.ok && addr == api.ptr && size == api.size && addr != api.old_ptr => Some(h),
                    other => {
                        a.held = other;
                        None
                    }
                };
                if let Some(h) = nested_ev.as_ref() {
                    merged_ga = h.ga.clone();
                    ev.new = h.new.clone();
                }
                if api.ok {
                    ev.addr = api.ptr as i64;
                    let nested = if nested_ev.is_some() { Some(0) } else { None };
                    if let Some(k) = old {
                        let b = a.live.remove(k);
                        ev.dead.push(b.id);
                    }
                    if nested.is_none() {
                        let bid = a.next_blk;
                        a.next_blk += 1;
                        a.live.push(Blk { id: bid, addr: api.ptr, size: api.size, align: api.align });
                        ev.new.push([bid, 0, clamp(api.size), api.align as i64]);
                    }
                } else {
                    ev.res = "err".into();
                }
            }
            hooks::OP_RESET | hooks::OP_DROP => {
                ev.op = if api.op == hooks::OP_RESET { "reset".into() } else { "drop".into() };
                let a = s.arenas.get_mut(&id).unwrap();
                for b in a.live.drain(..) {
                    ev.dead.push(b.id);
                }
            }
            hooks::OP_SET_LIMIT => {
                ev.op = "set_limit".into();
                ev.len = view.allocation_limit().map(clamp).unwrap_or(-1);
            }
            _ => {}
        }
        // refusals left behind by a constructor that failed (no arena, no event) cannot belong to an
        // operation that never asks the global allocator
        if matches!(api.op, hooks::OP_DEALLOC | hooks::OP_REWIND | hooks::OP_SET_LIMIT) {
            pending.retain(|g| !(g[0] == 1 && g[4] == 0));
        }
        merged_ga.extend(std::mem::take(&mut pending));
        ev.ga = merged_ga;
        if api.op != hooks::OP_DROP {
            snapshot(s, &mut ev, view);
        } else {
            ev.lim = -1;
        }
        // translate addresses now that this operation's chunks are in the table
        if ev.addr != 0 {
            ev.addr = to_v(s, ev.addr as usize);
        }
        if ev.ptr > 0 {
            ev.ptr = to_v(s, ev.ptr as usize);
        }
        for n in ev.new.iter_mut() {
            n[1] = if api.ptr != 0 { to_v(s, api.ptr) } else { 0 };
        }
        // whatever was held back and not absorbed by this event goes out first
        flush_held(s, id);
        if let Some((addr, size)) = hold {
            s.arenas.get_mut(&id).unwrap().held = Some((ev, addr, size));
            BUSY.with(|b| b.set(false));
            return;
        }
        emit(s, ev, id);
        if api.op == hooks::OP_DROP {
            s.arenas.remove(&id);
        }
    });
    BUSY.with(|b| b.set(false));
}
