//! The repository's own integration tests (tests/all/*.rs), unchanged, compiled against the crate built from
//! the working tree with the verification hooks on. When BUMPALO_VERIF_APITRACE names a file, every arena
//! operation any of these tests performs is recorded there (vh::apitrace) for validation by ArenaMonitor.tla.
#![allow(warnings)]

#[path = "/repo/tests/all/main.rs"]
mod all;

#[used]
#[link_section = ".init_array"]
static INIT: extern "C" fn() = {
    extern "C" fn init() {
        vh::apitrace::install_from_env();
    }
    init
};
